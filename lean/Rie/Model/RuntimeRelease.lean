/-
Model of `appctx.GetUserAgentFromRequest`, `CreateRuntimeReleaseFromRequest` and
`UpdateAppCtxWithRuntimeRelease` (lambda/appctx/appctxutil.go) over byte strings.

`strings.Fields` is modelled for ASCII input: it splits around runs of `\t \n \v \f \r` and
space. (For strings with non-ASCII bytes Go additionally splits at the Unicode spaces U+0085,
U+00A0, U+1680, U+2000–U+200A, U+2028, U+2029, U+202F, U+205F, U+3000; that is
`strings.Fields`' business and not claimed — the bound and fixedness theorems do not depend on
how the header is split, see `createFrom`.) `availableLength` is a Go `int` and can be
negative: modelled in `Int`.

Core Lean only (the oracle executable links this file).
-/
namespace Rie.Release

abbrev Bytes := List UInt8

def isSpace (b : UInt8) : Bool := b == 32 || (decide (9 ≤ b.toNat) && decide (b.toNat ≤ 13))

/-- `strings.Fields` on ASCII; `cur` is the current field, reversed -/
def fieldsAux : Bytes → Bytes → List Bytes
  | cur, [] => if cur.isEmpty then [] else [cur.reverse]
  | cur, b :: bs =>
    if isSpace b then
      (if cur.isEmpty then fieldsAux [] bs else cur.reverse :: fieldsAux [] bs)
    else fieldsAux (b :: cur) bs

def fields (s : Bytes) : List Bytes := fieldsAux [] s

/-- `strings.ReplaceAll(h, "(", "")`, then `")"` -/
def removeParens (h : Bytes) : Bytes := h.filter fun b => b != 40 && b != 41

/-- "Unknown" -/
def unknown : Bytes := [85, 110, 107, 110, 111, 119, 110]

/-- the `for _, feature := range strings.Fields(...)` loop: the accepted features.
    `avail` = `availableLength`, `n` = `numberOfAppendedFeatures`. -/
def select : Int → Nat → List Bytes → List Bytes
  | _, _, [] => []
  | avail, n, f :: fs =>
    if (f.length : Int) ≤ avail - (n : Int) then f :: select (avail - (f.length : Int)) (n + 1) fs
    else select avail n fs

/-- `strings.Join(xs, " ")` -/
def joinSp : List Bytes → Bytes
  | [] => []
  | [x] => x
  | x :: y :: r => x ++ 32 :: joinSp (y :: r)

/-- `CreateRuntimeReleaseFromRequest` given the fields of the (paren-free) features header -/
def createFrom (maxLen : Nat) (rr : Bytes) (feats : List Bytes) : Bytes :=
  let l : Nat := if rr.length = 0 then unknown.length else rr.length
  let sel := select ((maxLen : Int) - (l : Int) - 3) 0 feats
  match sel with
  | [] => rr
  | _ :: _ => (if rr.isEmpty then unknown else rr) ++ [32, 40] ++ joinSp sel ++ [41]

/-- whether `createFrom` appends a feature list -/
def appends (maxLen : Nat) (rr : Bytes) (feats : List Bytes) : Bool :=
  let l : Nat := if rr.length = 0 then unknown.length else rr.length
  !(select ((maxLen : Int) - (l : Int) - 3) 0 feats).isEmpty

/-- `CreateRuntimeReleaseFromRequest(request, rr)` with `hdr` = `Lambda-Runtime-Features` -/
def create (maxLen : Nat) (rr hdr : Bytes) : Bytes := createFrom maxLen rr (fields (removeParens hdr))

/-- `GetUserAgentFromRequest` with `ua` = `User-Agent` -/
def userAgent (ua : Bytes) : Bytes :=
  match fields ua with
  | [] => []
  | f :: _ => f

structure Req where
  ua   : Bytes
  hdr  : Bytes
deriving DecidableEq, Repr

/-- `UpdateAppCtxWithRuntimeRelease`: stored value (empty = none) ↦ new stored value, result -/
def update (maxLen : Nat) (stored : Bytes) (r : Req) : Bytes × Bool :=
  if 0 < stored.length then
    let n := create maxLen stored r.hdr
    if stored.length < n.length ∧ stored.getLast? ≠ some 41 then (n, true) else (stored, false)
  else
    let n := create maxLen (userAgent r.ua) r.hdr
    if n ≠ [] then (n, true) else (stored, false)

def run (maxLen : Nat) (stored : Bytes) (rs : List Req) : Bytes :=
  rs.foldl (fun s r => (update maxLen s r).1) stored

end Rie.Release
