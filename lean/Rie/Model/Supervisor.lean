/-
Model: the bookkeeping of `lambda/supervisor/local_supervisor.go` (`LocalSupervisor`).

What the Go code keeps:
* `processMap : map[string]process` (under `processMapLock`): `Exec` stores `name ↦ {pid, termination}`
  after a successful `command.Start()`. A second `Exec` with a name that is already in the map is NOT
  refused: the entry is overwritten (the older process keeps running, keeps its waiter goroutine and
  still produces its event, but `Kill`/`Terminate` can no longer reach it). Entries are never removed
  by exit, `Kill` or `Terminate` (only `Stop`, which is outside C19, empties the map).
* per started process one waiter goroutine: `command.Wait(); close(termination); events <- Event{…}`.
  `termination` closed ⇔ the process is known to have exited.

The model keeps the process table (`procs`, index = model pid, the state `running | exited status` is
"`termination` open | closed, and what `Wait` returned"), the map (`map`, association list, newest entry
first = overwrite), and the ghost list of emitted events.

What the operating system does is an environment op: `exit pid st` = process `pid` ends with wait status
`st` (by itself, because of the SIGTERM of an earlier `terminate`, of a SIGKILL whose `Kill` call already
gave up, or of anybody else) and its waiter goroutine runs. In `kill` the two booleans are the
environment's answers: was the deadline already over when `Kill` looked at the clock; does the SIGKILLed
process end (and get reaped by its waiter) before the deadline.

Atomicity assumptions: `close(termination); events <- …` of the waiter goroutine is one step (between the
two a `Kill` may already report success; the ghost list holds the events the waiter is committed to send);
the map accesses are atomic (mutex). Domains other than "runtime" are no-ops returning nil (`foreign`).

Core Lean only (the oracle executable links this file).
-/
namespace Rie.Supervisor

/-- What `Wait` reports: `code n` = exited with status n, `sig n` = terminated by signal n. -/
inductive Status where
  | code (n : Nat)
  | sig (n : Nat)
deriving DecidableEq, Repr

inductive PState where
  | running
  | exited (st : Status)
deriving DecidableEq, Repr

structure Proc where
  name : Nat
  st   : PState
deriving DecidableEq, Repr

def Proc.isExited (p : Proc) : Bool :=
  match p.st with
  | .exited _ => true
  | .running => false

/-- A termination event as sent on the `Events()` channel (`pid` is ghost: the Go event carries only
    the name). -/
structure Event where
  pid    : Nat
  name   : Nat
  status : Status
deriving DecidableEq, Repr

structure Sup where
  /-- every process ever started, index = model pid -/
  procs  : List Proc
  /-- `processMap`, newest entry first; `List.lookup` = Go map lookup after overwrites -/
  map    : List (Nat × Nat)
  /-- ghost: events emitted so far, oldest first -/
  events : List Event
deriving DecidableEq, Repr

inductive Op where
  /-- `Exec` in domain "runtime"; `started` = did `command.Start()` succeed -/
  | exec (name : Nat) (started : Bool)
  /-- environment: process `pid` ends with `st`; its waiter closes `termination` and emits the event -/
  | exit (pid : Nat) (st : Status)
  | terminate (name : Nat)
  | kill (name : Nat) (deadlinePassed diesInTime : Bool)
  /-- Exec / Kill / Terminate with a domain other than "runtime" -/
  | foreign
deriving DecidableEq, Repr

/-- return class of a call -/
inductive Ret where
  | unit           -- environment step, nothing returned
  | ok             -- nil
  | startErr       -- the error of `command.Start()`
  | noSuchEntity   -- `SupervisorError{Kind: NoSuchEntity}`
  | badDeadline    -- "invalid timeout while killing …"
  | timedOut       -- "timed out while trying to SIGKILL …"
deriving DecidableEq, Repr

def sigKill : Nat := 9

/-- process `pid` ends with `st` (no effect unless it is running) -/
def exitProc (s : Sup) (pid : Nat) (st : Status) : Sup :=
  match s.procs[pid]? with
  | some ⟨nm, .running⟩ =>
      { s with procs := s.procs.set pid ⟨nm, .exited st⟩,
               events := s.events ++ [⟨pid, nm, st⟩] }
  | _ => s

def step (s : Sup) : Op → Sup × Ret
  | .exec name started =>
      if started then
        ({ s with procs := s.procs ++ [⟨name, .running⟩],
                  map := (name, s.procs.length) :: s.map }, .ok)
      else (s, .startErr)
  | .exit pid st => (exitProc s pid st, .unit)
  | .terminate name =>
      -- looks the pid up, sends SIGTERM to the group, never looks at `termination`, never waits
      match s.map.lookup name with
      | some _ => (s, .ok)
      | none => (s, .noSuchEntity)
  | .kill name deadlinePassed diesInTime =>
      match s.map.lookup name with
      | none => (s, .noSuchEntity)
      | some pid =>
        match s.procs[pid]? with
        | none => (s, .noSuchEntity)                 -- unreachable (see `Inv.mapWf`)
        | some ⟨_, .exited _⟩ => (s, .ok)           -- `termination` already closed: success, whatever the deadline
        | some ⟨_, .running⟩ =>
            if deadlinePassed then (s, .badDeadline)  -- refused before any signal is sent
            else if diesInTime then (exitProc s pid (.sig sigKill), .ok)
            else (s, .timedOut)                       -- SIGKILL sent, wait gave up; the exit comes later as `exit`
  | .foreign => (s, .ok)

def run (s : Sup) (ops : List Op) : Sup := ops.foldl (fun s o => (step s o).1) s

/-- `NewLocalSupervisor()` -/
def init : Sup := { procs := [], map := [], events := [] }

/-- number of events emitted for model pid `pid` -/
def evCountPid (s : Sup) (pid : Nat) : Nat := s.events.countP (fun e => e.pid == pid)

/-- number of events emitted with name `n` -/
def evCountName (s : Sup) (n : Nat) : Nat := s.events.countP (fun e => e.name == n)

/-- number of processes started under name `n` that have exited -/
def exitedCountName (s : Sup) (n : Nat) : Nat := s.procs.countP (fun p => p.name == n && p.isExited)

/-- number of processes started under name `n` -/
def startedCountName (s : Sup) (n : Nat) : Nat := s.procs.countP (fun p => p.name == n)

def isExec (n : Nat) : Op → Bool
  | .exec m true => m == n
  | _ => false

end Rie.Supervisor
