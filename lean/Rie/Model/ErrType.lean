/-
Model of `fatalerror.GetValidRuntimeOrFunctionErrorType` (lambda/fatalerror/fatalerror.go):

    match, _ := regexp.MatchString("^(Runtime|Function)\\.[A-Z][a-zA-Z]+$", errorType)
    if match { return ErrorType(errorType) }
    if strings.HasPrefix(errorType, "Function.") { return FunctionUnknown }
    return RuntimeUnknown

The pattern is written out as an explicit byte-level matcher (no regular-expression engine).
Go's `regexp` is trusted to implement the pattern: it is anchored at both ends (`$` without
the `m` flag is end of text only), case sensitive, and its classes `[A-Z]`, `[a-zA-Z]` contain
ASCII letters only, so no multi-byte rune and no invalid byte can match — matching on bytes is
exact. The differential run compares this matcher with the real function.

Core Lean only (the oracle executable links this file).
-/
namespace Rie.ErrType

abbrev Bytes := List UInt8

def isUpper (c : UInt8) : Bool := decide (65 ≤ c.toNat) && decide (c.toNat ≤ 90)
def isLower (c : UInt8) : Bool := decide (97 ≤ c.toNat) && decide (c.toNat ≤ 122)
def isAlpha (c : UInt8) : Bool := isUpper c || isLower c

/-- "Runtime." -/
def runtimeDot : Bytes := [82, 117, 110, 116, 105, 109, 101, 46]
/-- "Function." -/
def functionDot : Bytes := [70, 117, 110, 99, 116, 105, 111, 110, 46]
/-- "Unknown" -/
def unknown : Bytes := [85, 110, 107, 110, 111, 119, 110]
/-- `fatalerror.RuntimeUnknown` -/
def runtimeUnknown : Bytes := runtimeDot ++ unknown
/-- `fatalerror.FunctionUnknown` -/
def functionUnknown : Bytes := functionDot ++ unknown

/-- `some rest` when `s = p ++ rest` -/
def stripPrefix : Bytes → Bytes → Option Bytes
  | [], s => some s
  | _ :: _, [] => none
  | a :: p, b :: s => if a = b then stripPrefix p s else none

/-- `[A-Z][a-zA-Z]+$` against the whole remaining text -/
def matchName : Bytes → Bool
  | c :: d :: rest => isUpper c && isAlpha d && rest.all isAlpha
  | _ => false

def matchAfter (p s : Bytes) : Bool :=
  match stripPrefix p s with
  | some x => matchName x
  | none => false

/-- `^(Runtime|Function)\.[A-Z][a-zA-Z]+$` -/
def matchesPattern (s : Bytes) : Bool := matchAfter runtimeDot s || matchAfter functionDot s

/-- `strings.HasPrefix(errorType, "Function.")` -/
def hasFunctionPrefix (s : Bytes) : Bool := (stripPrefix functionDot s).isSome

def sanitize (s : Bytes) : Bytes :=
  if matchesPattern s then s
  else if hasFunctionPrefix s then functionUnknown
  else runtimeUnknown

/-- The explicit form of the property text: `Runtime.X` or `Function.X`, `X` a capitalised
    word of (at least two) ASCII letters. -/
def IsForm (s : Bytes) : Prop :=
  ∃ p x, (p = runtimeDot ∨ p = functionDot) ∧ s = p ++ x ∧ 2 ≤ x.length ∧
    (∃ c, x.head? = some c ∧ isUpper c = true) ∧ ∀ c ∈ x, isAlpha c = true

end Rie.ErrType
