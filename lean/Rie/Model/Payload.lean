/-
Model P: the request buffer of `InvokeRenderer` (lambda/rapi/rendering/rendering.go) — one
`bytes.Buffer` allocated by `newInitContext` and REUSED by every invocation until a reset.

`NewInvokeRenderer` resets the buffer; `bufferInvokeRequest` fills it from
`io.LimitReader(payload, MaxPayloadSize)` iff it is empty (the payload reader is consumed by what
was read); `RenderRuntimeEvent` writes the buffer's bytes.
-/
namespace Rie.Payload

/-- one invocation's renderer: the shared buffer and what is left in the payload reader -/
structure Renderer where
  buf  : List UInt8
  rest : List UInt8
deriving DecidableEq, Repr

/-- `NewInvokeRenderer(…, requestBuffer, …)`: `requestBuffer.Reset()`; the old content is gone -/
def newRenderer (_old : List UInt8) (payload : List UInt8) : Renderer := { buf := [], rest := payload }

/-- `RenderRuntimeEvent`: returns the renderer and the bytes written to the runtime -/
def render (max : Nat) (r : Renderer) : Renderer × List UInt8 :=
  if r.buf.isEmpty then
    let d := r.rest.take max
    ({ buf := d, rest := r.rest.drop max }, d)
  else (r, r.buf)

/-- `n` consecutive polls of the same invocation: the bytes delivered each time -/
def renders (max : Nat) : Nat → Renderer → Renderer × List (List UInt8)
  | 0, r => (r, [])
  | n + 1, r => ((renders max n (render max r).1).1, (render max r).2 :: (renders max n (render max r).1).2)

/-- a history: for each invocation its payload and how often the runtime polled for it;
    result: for each invocation the list of bodies delivered -/
def history (max : Nat) : List UInt8 → List (List UInt8 × Nat) → List (List (List UInt8))
  | _, [] => []
  | b, (p, n) :: rest => (renders max n (newRenderer b p)).2 :: history max (renders max n (newRenderer b p)).1.buf rest

end Rie.Payload
