/-
Model L0: `ManagedThread` of `lambda/core/states.go` (operator condition: a one-shot
release latch) with the goroutines inside `SuspendUnsafe`.

`Release` = lock; flag := true; `Signal` (wakes at most one parked waiter); unlock.
`SuspendUnsafe` (called with the mutex held) = `for !flag { Wait() }; flag := false`.
Which parked waiter `Signal` wakes is the Go runtime's choice; here it is an argument of the op.
-/
namespace Rie.Thread

inductive W where
  | idle | parked | woken | done
deriving DecidableEq, Repr

structure Sys where
  flag     : Bool
  ws       : List W
  /-- ghost: number of `Release` calls that found the flag false (effective releases) -/
  released : Nat
  /-- ghost: number of `SuspendUnsafe` calls that returned -/
  passed   : Nat
deriving DecidableEq, Repr

inductive Op where
  | release (k : Nat)   -- k selects which parked waiter Signal wakes (index among all waiters; ignored if not parked)
  | enter (i : Nat)
  | resume (i : Nat)
  | collect (i : Nat)
deriving DecidableEq, Repr

def firstParked (ws : List W) : Option Nat := ws.findIdx? (· == .parked)

def evalWait (s : Sys) (i : Nat) : Sys :=
  if s.flag then { s with flag := false, ws := s.ws.set i .done, passed := s.passed + 1 }
  else { s with ws := s.ws.set i .parked }

def step (s : Sys) : Op → Sys
  | .release k =>
      let rel := if s.flag then s.released else s.released + 1
      -- Signal: wake waiter k if it is parked, else the first parked one, else nobody
      let tgt := match s.ws[k]? with
        | some .parked => some k
        | _ => firstParked s.ws
      match tgt with
      | some j => { s with flag := true, ws := s.ws.set j .woken, released := rel }
      | none   => { s with flag := true, released := rel }
  | .enter i =>
      match s.ws[i]? with
      | some .idle => evalWait s i
      | _ => s
  | .resume i =>
      match s.ws[i]? with
      | some .woken => evalWait s i
      | _ => s
  | .collect i =>
      match s.ws[i]? with
      | some .done => { s with ws := s.ws.set i .idle }
      | _ => s

def run (s : Sys) (ops : List Op) : Sys := ops.foldl step s

def init (n : Nat) : Sys := { flag := false, ws := List.replicate n .idle, released := 0, passed := 0 }

end Rie.Thread
