import Rie.Model.Sys.Orch
/-
Handler dispatch, events watcher, the goroutines of Server.Invoke, `settle`, and the
externally caused ops.
-/
namespace Rie.Sys
open Rie.SM

/-- the thread that gets the handler-execution mutex starts running its handler -/
def startHandler (s : State) : HReq → State
  | .init => startInit { s with watcherStarted := true } .init
  | .invoke k c h =>
    let s := { s with curInv := some (k, c, h),
                      flights := s.flights.map fun f => if f.g4 == .waitMutex then { f with g4 := .running } else f }
    if !s.initDone then startInit s .invoke else continueInvoke s
  | .reset reason from_ =>
    let s := { s with shutFrom := from_ }
    let s := if reason == "failure" || reason == "timeout" then
        let et := if reason == "failure" then s.fatal.getD "Sandbox.Failure" else "-"
        let status := if reason == "timeout" then "timeout" else if et.startsWith "Sandbox." then "failure" else "error"
        s.emit s!"ev invokeRuntimeDone:{status}:{et}"
      else s
    beginShutdown s (.reset reason)
  | .shutdown from_ => beginShutdown { s with shutFrom := from_ } .shutdown

/-- events watcher: one termination event -/
def watchOne (s : State) (full : String) (zero : Bool) : State :=
  let isRt := full == rtFull s
  let (s, e) := if !s.shuttingDown then
      (storeFatal s (if isRt then "Runtime.ExitError" else "Extension.Crash"), CErr.procExit)
    else (s, CErr.nilErr)
  -- handleProcessExit
  let s := if s.awaitingExit.contains full then
      match procByFull s full with
      | some p =>
        match findAgent s p.name with
        | some a =>
          let c : AgCall := if zero then .exited else .shutdownFailed
          match agProg a c with
          | some is => let (s, a, _) := runAgInstrs "" s a is; setAgent s a
          | none => s
        | none => s
      | none => s
    else s
  match procByFull s full with
  | some p =>
    if !p.chanCreated then { s with crashed := true }
    else cancelFlows (setProc s { p with chanClosed := true }) e
  | none => { s with crashed := true }

/-- Server.Reset as called from inside Invoke -/
def requestReset (s : State) (reason : String) (from_ : Nat) : State :=
  let s := { s with resv := s.resv.map fun r => { r with resetStarted := true } }
  { (cancelFlows s .reset) with queue := s.queue ++ [.reset reason from_] }

def finishFlight (s : State) (f : Flight) (err : String) : State :=
  let s := { s with flights := s.flights.filter (·.caller != f.caller),
                    timers := s.timers.filter (· != Timer.invoke f.caller) }
  s.emitCaller f.caller err f.body

/-- FastInvoke up to its select -/
def fastInvoke (s : State) (f : Flight) : State :=
  match s.resv with
  | none => setFlight s { f with g3 := .done }
  | some r =>
    if r.resetStarted || r.replySent || r.replyStream then setFlight s { f with g3 := .done } else
    let s := { s with resv := some { r with replyStream := true, writer := f.caller }, rapidPhaseInvoking := true }
    if s.invokerNil then setFlight { s with doneChan := some "ok" } { f with g3 := .fast, g4 := .done }
    else setFlight { s with queue := s.queue ++ [.invoke r.k f.caller f.phash] } { f with g3 := .fast, g4 := .waitMutex }

/-- one move of one goroutine of a Server.Invoke call; `none` = nothing to do for this flight -/
def flightMove (s : State) (f : Flight) : Option State :=
  -- G3
  if f.g3 == .awaitInit then
    match s.initChan with
    | .failure _ _ =>
      let s := { s with initChan := .closed, cached := some (s.cached.getD "empty"), queue := s.queue ++ [.shutdown 1] }
      some (setFlight s { f with g3 := .shutdownWait })
    | .closed => some (fastInvoke s f)
    | _ => none
  else if f.g3 == .shutdownRun then some (fastInvoke s f)
  else if f.g3 == .fast && s.resv.isNone then some (setFlight s { f with g3 := .done })
  -- G2
  else if f.g2 == .awaitRelease && s.doneChan.isSome then
    match s.doneChan with
    | some "ok" =>
      some (setFlight (release { s with doneChan := none, rapidPhaseInvoking := false }) { f with g2 := .done, released := some "ok" })
    | some v =>
      let e := if v == "InitDoneFailed" then "InitDoneFailed" else "InvokeDoneFailed"
      let s := { s with doneChan := none, rapidPhaseInvoking := false }
      some (setFlight (requestReset s "ReleaseFail" 2) { f with g2 := .resetWait, released := some e })
    | none => none
  else if f.g2 == .awaitRelease && s.resv.isNone then
    some (setFlight { s with rapidPhaseInvoking := false } { f with g2 := .done, released := some "ok" })
  -- G0
  else if f.g0 == .selecting && f.g2 == .done then
    match f.released with
    | some "ok" => some (finishFlight (release s) f "ok")
    | some e => some (finishFlight s f e)
    | none => none
  else if f.g0 == .timeoutAwaitRelease && f.g2 == .done then some (finishFlight s f "InvokeTimeout")
  else none

def firstSome {α β : Type} (f : α → Option β) : List α → Option β
  | [] => none
  | x :: xs => match f x with | some y => some y | none => firstSome f xs

/-- `Server.Init` (first use): the init handler is queued; in snapshot mode the credentials service
    gets the instance token and the init request's keys -/
def startServerInit (s : State) : State :=
  if s.inited then s else
  { s with inited := true, initChan := .pending, queue := s.queue ++ [.init],
           credKey := if s.snapshot then some "AKIDEXAMPLE" else none }

def restoreDoneEvent (s : State) (ok : Bool) : State :=
  s.emit s!"ev restoreRuntimeDone:{if ok then "success" else "error"}:{if ok then "-" else s.fatal.getD "Runtime.Unknown"}"

/-- `handleRestore` up to its wait (it does not take the handler mutex) -/
def handleRestore (s : State) (key : String) : State :=
  match s.credKey with
  | none => (restoreDoneEvent s true).emit "restore done err=errRestoreUpdateCredentials"
  | some _ =>
    let s := { s with credKey := some key, renderer := .restore }
    if s.rt != some .restoreReady then (restoreDoneEvent s true).emit "restore done err=ok"
    else { s with rtFlag := true, restoreWaiting := true, timers := s.timers ++ [.restoreHook] }

/-- the end of `handleRestore` with the error (if any) of the wait -/
def restoreFinish (s : State) (err : Option String) : State :=
  let s := { s with restoreWaiting := false, timers := s.timers.filter (· != Timer.restoreHook) }
  let err := match s.fatal with | some t => some t | none => err
  match err with
  | none => (restoreDoneEvent s true).emit "restore done err=ok"
  | some e => (restoreDoneEvent s false).emit s!"restore done err={e}"

/-- the restore thread resumes when the runtime-ready gate of the init flow opens or is cancelled -/
def restoreResume (s : State) : Option State :=
  if !s.restoreWaiting then none else
  let g := s.initFlow.runtimeReady
  if !g.isOpen then none else
  if !g.canceled then some (restoreFinish s none)
  else some (restoreFinish s (some (match g.err with
    | some .restoreUser => s!"userError:{s.restoreUserType}"
    | some .restoreTimeout => "Runtime.RestoreHookUserTimeout"
    | some .reset => "errResetReceived"
    | some .procExit => "procExit"
    | _ => "ErrGateCanceled")))

def orElse' {α : Type} (a : Option α) (b : Unit → Option α) : Option α :=
  match a with | some x => some x | none => b ()

/-- moves of the handler-mutex thread, the mutex hand-over and the Invoke goroutines -/
def platformMove (lifo : Bool) (s : State) : Option State :=
  orElse' (orchResume s) fun _ =>
  orElse' (shutResume s s.shutFrom) fun _ =>
  orElse' (restoreResume s) fun _ =>
  match s.orch, s.queue with
  | .idle, r :: rest =>
    -- sync.Mutex is not FIFO: any waiting handler may get the handler-execution mutex
    if lifo then
      match s.queue.getLast? with
      | some l => some (startHandler { s with queue := s.queue.dropLast } l)
      | none => none
    else some (startHandler { s with queue := rest } r)
  | _, _ => firstSome (flightMove s) s.flights

/-- a parked API handler that was signalled runs -/
def wakeMove (lifo : Bool) (s : State) : Option State := orElse' (wakeRt s) fun _ => wakeAgent lifo s

/-- a Kill goroutine of shutdownAgents runs -/
def killMove (s : State) : Option State :=
  match s.killQueue with
  | full :: rest => some (supKill { s with killQueue := rest } full)
  | [] => none

/-- one internal move; `none` = quiescent. The events watcher always goes first. The relative
    order of (a) the platform threads, (b) a signalled API handler leaving its wait, (c) the Kill goroutines,
    (d) a woken handler reading the event is the Go scheduler's choice, made by the digit `d = v % 12`:
    `d % 3` selects one of three priorities among (a)–(c)
      0: platform, kills, wakes   1: wakes, platform, kills   2: platform, wakes, kills,
    `d % 6 ≥ 3` makes the handler mutex LIFO and lets the last (not the first) runnable agent handler run,
    `d ≥ 6` lets woken handlers read their event only when nothing else can move (otherwise they read it at once). -/
def progress (v : Nat) (s : State) : Option State :=
  if s.crashed then none else
  match s.exitQueue with
  | (full, zero) :: rest => some (watchOne { s with exitQueue := rest } full zero)
  | [] =>
    let lifo := decide (v % 6 ≥ 3)
    let w := v % 3
    let rest :=
      if w == 1 then orElse' (wakeMove lifo s) fun _ => orElse' (platformMove lifo s) fun _ => killMove s
      else if w == 2 then orElse' (platformMove lifo s) fun _ => orElse' (wakeMove lifo s) fun _ => killMove s
      else orElse' (platformMove lifo s) fun _ => orElse' (killMove s) fun _ => wakeMove lifo s
    if v % 12 ≥ 6 then orElse' rest fun _ => renderWoken lifo s
    else orElse' (renderWoken lifo s) fun _ => rest

/-- the scheduler's choices for the moves to come: `v < 12` is one policy kept for good; a larger `v` is a
    sequence of digits to base 12, least significant first, one per move, the last one kept for good — every
    finite sequence of choices is some `v` -/
def nextChoice (v : Nat) : Nat := if v < 12 then v else v / 12

def settle (v : Nat) : Nat → State → State
  | 0, s => s
  | n + 1, s => match progress v s with
    | none => s
    | some s' => settle (nextChoice v) n s'

/-- the routes of the Runtime API server — `lambda/rapi/router.go` composed with the mounts of
    `lambda/rapi/server.go`, in source order: (method, path, condition, guard).
    condition: "" always | "snapshot" only with init caching | "telemetry" only with the telemetry API
    enabled | "stub" only with it disabled (how the emulator runs);
    guard: "" none | "reqid" `AwsRequestIDValidator` (URL id = current id, before the handler) |
    "agentid" `AgentUniqueIdentifierHeaderValidator` (identifier header present and a UUID, before the handler).
    Regenerated from the source on every run and proved equal (`Rie.Props.RoutesTable`). -/
def routeTable : List (String × String × String × String) := [
  ("GET", "/2018-06-01/ping", "", ""),
  ("GET", "/2018-06-01/runtime/invocation/next", "", ""),
  ("POST", "/2018-06-01/runtime/invocation/{awsrequestid}/response", "", "reqid"),
  ("POST", "/2018-06-01/runtime/invocation/{awsrequestid}/error", "", "reqid"),
  ("POST", "/2018-06-01/runtime/init/error", "", ""),
  ("GET", "/2018-06-01/runtime/restore/next", "snapshot", ""),
  ("POST", "/2018-06-01/runtime/restore/error", "snapshot", ""),
  ("POST", "/2020-01-01/extension/register", "", ""),
  ("GET", "/2020-01-01/extension/event/next", "", "agentid"),
  ("POST", "/2020-01-01/extension/init/error", "", "agentid"),
  ("POST", "/2020-01-01/extension/exit/error", "", "agentid"),
  ("PUT", "/2020-08-15/logs", "telemetry", "agentid"),
  ("PUT", "/2022-07-01/telemetry", "telemetry", "agentid"),
  ("PUT", "/2020-08-15/logs", "stub", ""),
  ("PUT", "/2022-07-01/telemetry", "stub", ""),
  ("GET", "/2021-04-23/credentials", "snapshot", "")]

/-- is a route of the table served in this mode? (the emulator never enables the telemetry API) -/
def routeOn (snapshot : Bool) (r : String × String × String × String) : Bool :=
  r.2.2.1 == "" || r.2.2.1 == "stub" || (snapshot && r.2.2.1 == "snapshot")

/-- the fixed-path routes served (method, path, condition); the routes with an `{awsrequestid}` path
    parameter — exactly those behind the request-id validator, `RoutesTable.guards` — are ops of
    their own (`rtResponse`, `rtError`) -/
def fixedRoutes (snapshot : Bool) : List (String × String × String) :=
  ((routeTable.filter (routeOn snapshot)).filter fun r => r.2.2.2 != "reqid").map fun r => (r.1, r.2.1, r.2.2.1)

/-- a request that only exercises routing: 404 unknown path, 405 known path with another method;
    a served route answers 200 (the two telemetry stubs: 202 with their `…NotSupported` error type) -/
def rawRoute (snapshot : Bool) (m p : String) : String :=
  let rs := fixedRoutes snapshot
  match rs.find? fun r => r.1 == m && r.2.1 == p with
  | some r => if r.2.2 == "stub" then (if p == "/2020-08-15/logs" then "202,Logs.NotSupported" else "202,Telemetry.NotSupported") else "200"
  | none => if rs.any (·.2.1 == p) then "405" else "404"

/-! ### ops -/

inductive Op where
  | invoke (c : Nat) (size : Nat) (hash : String)
  | beh (base : String) (b : String)
  | execFail (base : String) (on : Bool)
  | register (name : String) (es : List Ev) (variant : String)
  | agNext (name mode : String)
  | agReport (name call etype mode : String)
  | rtNext
  | rtResponse (idk : Option Nat) (size : Nat) (hash : String) (badMode : Bool)
  | rtError (idk : Option Nat) (etype : String)
  | rtInitError (etype : String)
  | rtRestoreNext
  | rtRaw (method path : String)
  | rtRestoreError (etype : String)
  | rtCreds (tok : String)
  | init
  | restore (key : String)
  | exit (base : String) (status : String) (zero : Bool)
  | reset (reason : String)
  | shutdown
  | timer (t : Timer)
  | nop

def applyOp (s : State) : Op → State
  | .invoke c _ h =>
    let s := startServerInit s
    if s.resv.isSome then s.emitCaller c "AlreadyReserved" "empty"
    else
      let k := s.nextK
      { s with nextK := k + 1, resv := some { k := k, caller := c }, invokerNil := false,
               flights := s.flights ++ [{ caller := c, k := k, phash := h }], timers := s.timers ++ [.invoke c] }
  | .beh base b => { s with beh := (s.beh.filter (·.1 != base)) ++ [(base, b)] }
  | .execFail base on => { s with execFails := (s.execFails.filter (· != base)) ++ (if on then [base] else []) }
  | .register name es v => agRegister s name es v
  | .agNext name mode => agNext s name mode
  | .agReport name call etype mode => agReport s name call etype mode
  | .rtNext => rtCallBlocking s "next" .ready
  | .rtResponse idk size h bad => rtResponse s idk size h bad
  | .rtError idk et => rtError s idk et
  | .rtInitError et => rtInitError s et
  | .rtRestoreNext =>
    if !s.snapshot then reply s "rt" "restorenext" "404" else rtCallBlocking s "restorenext" .restoreReady
  | .rtRaw m p => reply s "rt" s!"raw:{m}:{p}" (rawRoute s.snapshot m p)
  | .rtRestoreError et =>
    if !s.snapshot then reply s "rt" "restoreerror" "404" else rtRestoreError s et
  | .rtCreds tok => if !s.snapshot then reply s "rt" s!"creds:{tok}" "404" else rtCreds s tok
  | .init => startServerInit s
  | .restore key => handleRestore s key
  | .exit base status zero =>
    match newestProc s base with
    | some p => die s p.full status zero
    | none => s
  | .reset reason => requestReset s reason 0
  | .shutdown => { s with queue := s.queue ++ [.shutdown 0] }
  | .timer t =>
    if !s.timers.contains t then s else
    let s := { s with timers := s.timers.filter (· != t) }
    match t with
    | .rtDeadline => { s with rtDeadlineFired := true }
    | .agDeadline => { s with agDeadlineFired := true }
    | .grace => { s with graceFired := true }
    | .restoreHook =>
      -- deadline of AwaitRuntimeReadyWithDeadline: ErrRestoreHookTimeout, the init flow is cancelled
      if s.restoreWaiting then restoreFinish (cancelInitFlow s .restoreTimeout) (some "Runtime.RestoreHookUserTimeout") else s
    | .resetTail n => if n ≤ 2 then resetTail s n else s
    | .invoke c =>
      -- the timeout goroutine of caller c fires
      match s.flights.find? (fun f => f.caller == c && f.g0 == .selecting) with
      | some f => setFlight (requestReset s "Timeout" 1) { f with g0 := .timeoutResetWait, timedOut := true }
      | none => s
  | .nop => s

def step (v : Nat) (s : State) (o : Op) : State := settle v 400 (applyOp { s with out := [] } o)

def obsOf (s : State) : String :=
  let xs := (s.outs.toArray.qsort (· < ·)).toList
  " ; ".intercalate xs ++ " | blocked=" ++ blockedStr s

end Rie.Sys
