import Rie.Model.Sys.Step
/-
Orchestrator (lambda/rapid), events watcher, shutdown choreography, and the goroutines of
`rapidcore.Server.Invoke`. `settle` runs all of them to quiescence.
-/
namespace Rie.Sys
open Rie.SM

def rtFull (s : State) : String := s!"runtime-{s.gen}"

/-- the fake supervisor terminates a process: exit event queued, its outstanding calls abort -/
def die (s : State) (full : String) (status : String) (zero : Bool) : State :=
  match procByFull s full with
  | none => s
  | some p =>
    if !p.alive then s else
    let s := setProc s { p with alive := false }
    let s := s.emit s!"sup exited:{full}:{status}"
    let gone := s.pending.filter (·.proc == full)
    let s := { s with pending := s.pending.filter (·.proc != full), exitQueue := s.exitQueue ++ [(full, zero)] }
    gone.foldl (fun s q => s.emit s!"{q.actor}.{q.call}=aborted") s

def supKill (s : State) (full : String) : State :=
  match procByFull s full with
  | none => s.emit s!"sup kill-unknown:{full}"
  | some _ => die (s.emit s!"sup kill:{full}") full "sig9" false

def supTerm (s : State) (full : String) : State :=
  match procByFull s full with
  | none => s.emit s!"sup term-unknown:{full}"
  | some p =>
    let s := s.emit s!"sup term:{full}"
    match s.beh.lookup p.name with
    | some b => if b.startsWith "exit:" then
                  let code := (b.drop 5).toString
                  die s full s!"code{code}" (code == "0")
                else s
    | none => s

/-! ### G4: what FastInvoke's goroutine does when HandleInvoke returns -/

/-- the body FastInvoke's goroutine sends when the handler failed: the cached init-error response if
    there is one, else the platform's JSON error naming the recorded fault -/
def failureBody (s : State) (errType : String) : String := s.cached.getD s!"errjson:{errType}"

def invokeReturned (s : State) (ok : Bool) (resetReceived : Bool) (errType : String) : State :=
  let s := { s with orch := .idle, curInv := none }
  let s := { s with flights := s.flights.map fun f => if f.g4 == .running then { f with g4 := .done } else f }
  if ok then { s with doneChan := some "ok" }
  else if resetReceived then s
  else
    let body := failureBody s errType
    match currentId s with
    | none => { s with crashed := true }     -- trySendDefaultErrorResponse: log.Panicf
    | some k =>
      let (s, r) := sendReply s k body
      match r with
      | .ok | .responseSent => { s with doneChan := some errType }
      | _ => { s with crashed := true }

def invokeFail (s : State) (e : Option CErr) : State :=
  invokeReturned s false (e == some .reset) (s.fatal.getD "Sandbox.Failure")

/-! ### doInvoke after the (possibly suppressed) init -/

def continueInvoke (s : State) : State :=
  match s.curInv with
  | none => { s with orch := .idle }
  | some (k, c, h) =>
    let s := s.emit s!"ev invokeStart:id#{k}"
    let s := { s with invFlow := { runtimeReady := s.invFlow.runtimeReady.reset,
                                   runtimeResponse := s.invFlow.runtimeResponse.reset,
                                   agentReady := s.invFlow.agentReady.reset } }
    let subs := s.agents.filter fun a => a.subs.contains .invoke
    let r := s.invFlow.agentReady.setCount subs.length
    if !r.2 then invokeFail s none else
    let s := { s with invFlow := { s.invFlow with agentReady := r.1 } }
    let s := { s with renderer := .invoke k c h,
                      agents := s.agents.map fun a => if a.subs.contains .invoke then { a with flag := true } else a,
                      rtFlag := true, orch := .vAwaitResponse }
    s

/-! ### doRuntimeDomainInit -/

/-- one status line of `logAgentsInitStatus` -/
def agentInfoLine (a : Agent) : String :=
  s!"ev extensionInit:{a.name}:{extStateName a.st}:{subsStr a.subs}:{if a.errType == "" then "-" else a.errType}"

/-- the deferred calls of doRuntimeDomainInit, in the order Go runs them (LIFO): init-runtime-done
    (only if the runtime had been started), one status line per extension, init-report -/
def initTailEvents (s : State) (ph : Phase) (status : String) : State :=
  let s := if s.rtDoneReg then
      s.emitEv .initRuntimeDone s!"{ph.str}:{status}:{if status == "success" then "-" else s.fatal.getD "Runtime.Unknown"}"
    else s
  let s := ((s.agents.filter (·.ext)) ++ (s.agents.filter (!·.ext))).foldl (fun s a => s.emit (agentInfoLine a)) s
  s.emitEv .initReport ph.str

/-- the deferred calls of doRuntimeDomainInit and what its caller does with the result -/
def initFinish (s : State) (ph : Phase) (ok : Bool) (status : String) (e : Option CErr) : State :=
  let s := { (initTailEvents s ph status) with rtDoneReg := false }
  match ph with
  | .init =>
    if ok then { s with orch := .idle, initChan := .closed }
    else { s with orch := .idle, initChan := .failure (e == some .reset) (s.fatal.getD "Sandbox.Failure") }
  | .invoke =>
    if ok then continueInvoke s
    else
      match s.curInv with
      | some (k, _, _) => invokeFail (s.emit s!"ev invokeStart:id#{k}") e
      | none => { s with orch := .idle }

def launchExtensions (s : State) (ph : Phase) : List String → State
  | [] => { s with orch := .iAwaitRegistered ph }
  | p :: ps =>
    -- CreateExternalAgent
    if !s.regOn || (findAgent s p).isSome then initFinish s ph false "success" none else
    let a : Agent := { name := p, ext := true, serial := s.nextSerial }
    let s := { s with agents := s.agents ++ [a], nextSerial := s.nextSerial + 1 }
    if s.agents.length > maxAgents then
      let s := setAgent s { a with st := .launchError, errSet := true, errType := "TooManyExtensions" }
      initFinish (storeFatal s "Extension.LaunchError") ph false "success" none
    else if s.execFails.contains p then
      -- supervisor.Exec fails: agentLaunchError (LaunchError / UnknownError, first fatal error
      -- Extension.LaunchError), no exit channel is created for it, the init fails
      let s := setAgent s { a with st := .launchError, errSet := true, errType := "UnknownError" }
      initFinish (storeFatal (s.emit s!"sup execfail:{extFull p s.gen}") "Extension.LaunchError") ph false "success" none
    else
      let pr : Proc := { name := p, gen := s.gen, chanCreated := true }
      let s := { s with procs := s.procs ++ [pr] }
      launchExtensions (s.emit s!"sup exec:{pr.full}") ph ps

def startInit (s : State) (ph : Phase) : State :=
  let s := s.emitEv .initStart ph.str
  let s := { s with gen := s.gen + 1, rtDoneReg := false }
  let r := s.initFlow.extRegistered.setCount s.extFiles.length
  if !r.2 then initFinish s ph false "success" none else
  let s := { s with initFlow := { s.initFlow with extRegistered := r.1 } }
  launchExtensions s ph s.extFiles

def gateErr (g : Latch) : Option CErr := if g.canceled then (match g.err with | some e => some e | none => some .nilErr) else none

/-- resume the orchestrator thread if what it waits for has happened; `none` = still blocked -/
def orchResume (s : State) : Option State :=
  match s.orch with
  | .idle => none
  | .iAwaitRegistered ph =>
    let g := s.initFlow.extRegistered
    if !g.isOpen then none else
    if g.canceled then some (initFinish s ph false "success" (gateErr g)) else
    -- PreregisterRuntime, bootstrap, Exec runtime
    if !s.regOn then some (initFinish s ph false "success" none) else
    let pr : Proc := { name := "runtime", gen := s.gen, chanCreated := true }
    let s := { s with rt := some .started, rtFlag := false, rtParked := [], procs := s.procs ++ [pr], rtDoneReg := true }
    some { (s.emit s!"sup exec:{pr.full}") with orch := .iAwaitRestoreReady ph }
  | .iAwaitRestoreReady ph =>
    let g := s.initFlow.restoreReady
    if !g.isOpen then none else
    if g.canceled then some (initFinish s ph false "error" (gateErr g)) else
    let s := { s with regOn := false }
    let r := s.initFlow.agentReady.setCount s.agents.length
    if !r.2 then some (initFinish s ph false "success" none) else
    some { s with initFlow := { s.initFlow with agentReady := r.1 }, orch := .iAwaitAgentsReady ph }
  | .iAwaitAgentsReady ph =>
    let g := s.initFlow.agentReady
    if !g.isOpen then none else
    if g.canceled then some (initFinish s ph false "error" (gateErr g)) else
    some (initFinish { s with initDone := true } ph true "success" none)
  | .vAwaitResponse =>
    let g := s.invFlow.runtimeResponse
    if !g.isOpen then none else
    if g.canceled then some (invokeFail s (gateErr g)) else some { s with orch := .vAwaitRuntimeReady }
  | .vAwaitRuntimeReady =>
    let g := s.invFlow.runtimeReady
    if !g.isOpen then none else
    if g.canceled then some (invokeFail s (gateErr g)) else
    let s := s.emit "ev invokeRuntimeDone:success:-"
    if s.agents.length > 0 then some { s with orch := .vAwaitAgentsReady }
    else some (invokeReturned s true false "")
  | .vAwaitAgentsReady =>
    let g := s.invFlow.agentReady
    if !g.isOpen then none else
    if g.canceled then some (invokeFail s (gateErr g)) else some (invokeReturned s true false "")
  | _ => none

/-! ### shutdown choreography (lambda/rapid/shutdown.go) -/

def reasonOf : ShutKind → String
  | .reset r => r
  | .shutdown => "spindown"

def disarmShutdownTimers (s : State) : State :=
  { s with timers := s.timers.filter fun t => t != .rtDeadline && t != .agDeadline && t != .grace,
           rtDeadlineFired := false, agDeadlineFired := false, graceFired := false }

/-- HandleReset returned: `rapidCtx.Clear()` = `reinitialize` runs (deferred in SandboxContext.Reset);
    the rest of the Reset goroutine (`Server.Clear`, …) follows after pause point
    `server.reset.beforeClear` — modelled as the timer `resetTail:<from>` that may fire at once. -/
def afterReset (s : State) (from_ : Nat) : State :=
  let s := { s with gen := s.gen + 1, resetErr := s.fatal.isSome }
  let s := { s with fatal := none, renderer := .none, initDone := false, rt := none, rtParked := [], rtFlag := false,
                    agents := [], regOn := true, cancelDone := false, initFlow := {
                      extRegistered := s.initFlow.extRegistered.clear, runtimeReady := s.initFlow.runtimeReady.clear,
                      agentReady := { s.initFlow.agentReady.clear with count := 65535 },   -- Clear, then SetCount(maxAgentsLimit): as a new flow
                      restoreReady := s.initFlow.restoreReady.clear },
                    invFlow := { runtimeReady := s.invFlow.runtimeReady.clear, runtimeResponse := s.invFlow.runtimeResponse.clear,
                                 agentReady := s.invFlow.agentReady.clear } }
  { s with timers := s.timers ++ [.resetTail from_] }

/-- `Server.Clear()`; phase idle; `Reset()` returns; `s.Release()`; then whoever asked continues -/
def resetTail (s : State) (from_ : Nat) : State :=
  let s := release { s with doneChan := none, cached := none, rapidPhaseInvoking := false, initChan := s.initChan.drain }
  match from_ with
  | 0 => s.emit s!"reset done err={s.resetErr}"
  | 1 => { s with flights := s.flights.map fun f => if f.g0 == .timeoutResetWait then { f with g0 := .timeoutAwaitRelease } else f }
  | _ => { s with flights := s.flights.map fun f => if f.g2 == .resetWait then { f with g2 := .done } else f }

def finishShutdown (s : State) (k : ShutKind) (from_ : Nat) : State :=
  let s := disarmShutdownTimers { s with shuttingDown := false, orch := .idle, agentWaits := [] }
  match k with
  | .reset _ => afterReset s from_
  | .shutdown =>
    let s := { s with rapidPhaseInvoking := false }
    if from_ == 0 then s.emit "shutdown done"
    else { s with flights := s.flights.map fun f => if f.g3 == .shutdownWait then { f with g3 := .shutdownRun } else f }

/-- requests carry who asked; the running shutdown keeps it here -/
def enterGrace (s : State) (k : ShutKind) : State :=
  { s with orch := .sGrace k, timers := s.timers ++ [.grace] }

/-- what `shutdownAgents` does for one external extension -/
def shutdownOne (s : State) (a : Agent) : State :=
  let full := extFull a.name s.gen
  match procByFull s full with
  | none => s                                   -- failed to launch: skipped
  | some p =>
    if !p.chanCreated then s else
    if a.subs.contains .shutdown then
      -- subscribed: Release() (the SHUTDOWN event), then wait for its exit or the deadline
      setAgent { s with awaitingExit := s.awaitingExit ++ [full], agentWaits := s.agentWaits ++ [full] } { a with flag := true }
    else { s with killQueue := s.killQueue ++ [full] }   -- not subscribed: killed without an event

def shutdownAgents (s : State) (k : ShutKind) : State :=
  let s := { s with renderer := .shutdown (reasonOf k), awaitingExit := [], agentWaits := [] }
  let exts := s.agents.filter (·.ext)
  { (exts.foldl shutdownOne s) with orch := .sAgents k }

/-- `shutdown()` after it has marked the context as shutting down and dropped the first fatal error -/
def shutdownBody (s : State) (k : ShutKind) : State :=
  if s.agents.length == 0 then
    let s := match procByFull s (rtFull s) with
      | some p => if p.chanCreated then supKill s p.full else s
      | none => s
    enterGrace s k
  else
    let s := { s with timers := s.timers ++ [.rtDeadline, .agDeadline] }
    match procByFull s (rtFull s) with
    | some p => if p.chanCreated then { (supTerm s p.full) with orch := .sRuntime k } else shutdownAgents s k
    | none => shutdownAgents s k

def beginShutdown (s : State) (k : ShutKind) : State :=
  shutdownBody { s with shuttingDown := true, fatal := none } k

/-- who asked for the shutdown that is running (kept in the head of `queueRun`) -/
def shutResume (s : State) (from_ : Nat) : Option State :=
  match s.orch with
  | .sRuntime k =>
    match procByFull s (rtFull s) with
    | some p =>
      if p.chanClosed then some (shutdownAgents s k)
      else if s.rtDeadlineFired then some (shutdownAgents (supKill s p.full) k)
      else none
    | none => some (shutdownAgents s k)
  | .sAgents k =>
    -- each waiting goroutine: exit seen, or deadline → Kill
    let (s, still) := s.agentWaits.foldl (fun (acc : State × List String) full =>
      match procByFull acc.1 full with
      | some p => if p.chanClosed then acc
                  else if acc.1.agDeadlineFired then (supKill acc.1 full, acc.2)
                  else (acc.1, acc.2 ++ [full])
      | none => acc) (s, [])
    if !s.killQueue.isEmpty then none    -- wg.Wait(): the Kill goroutines have not finished
    else if still.isEmpty then some (enterGrace { s with agentWaits := [] } k)
    else if still.length < s.agentWaits.length then some { s with agentWaits := still } else none
  | .sGrace k =>
    let chans := s.procs.filter (·.chanCreated)
    if chans.all (·.chanClosed) then
      some (finishShutdown { s with procs := s.procs.map fun p => { p with chanCreated := false } } k from_)
    else if s.graceFired then some (finishShutdown s k from_)
    else none
  | _ => none

end Rie.Sys
