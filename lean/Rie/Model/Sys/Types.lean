import Rie.Model.StateMachines
/-
Model L2+L3: the emulator as a whole at the granularity of externally caused events
("ops": an invocation arrives, a party makes an API call, a process exits, a timer fires,
reset/shutdown is requested). Each op is followed by the internal computation of all
emulator threads up to quiescence (`settle`). Threads that block (on a gate, on the handler
mutex, on a channel, on a timer) are represented by program counters and resume in the
`settle` of a later op.

Stands for: lambda/rapid/{handlers,sandbox,shutdown,exit}.go, lambda/rapidcore/{server,
sandbox_api}.go, lambda/rapi/handler/*.go, lambda/rapi/middleware, lambda/core/registrations.go
on top of the L0 latch semantics (Rie.Model.Gate, justified by the C11 theorems) and the
L1 state-machine programs (Rie.Model.StateMachines, tied by the regenerated tables).
-/
namespace Rie.Sys
open Rie.SM

/-- error carried by a cancelled gate -/
inductive CErr where
  | reset            -- errResetReceived (HandleReset)
  | procExit         -- error built by the events watcher for a process exit
  | nilErr           -- CancelFlows(nil): exit handled while shutting down → ErrGateCanceled
  | restoreTimeout | restoreUser
deriving DecidableEq, Repr

/-- abstract counting latch (the waiter-free view of `gateImpl`) -/
structure Latch where
  count : Nat
  arrived : Nat := 0
  canceled : Bool := false
  err : Option CErr := none
deriving DecidableEq, Repr

def Latch.isOpen (g : Latch) : Bool := g.arrived == g.count || g.canceled
/-- walk: returns (latch, ok?) -/
def Latch.walk (g : Latch) : Latch × Bool :=
  if g.arrived == g.count then (g, false) else ({ g with arrived := g.arrived + 1 }, true)
def Latch.setCount (g : Latch) (n : Nat) : Latch × Bool :=
  if n < g.arrived then (g, false) else ({ g with count := n }, true)
def Latch.reset (g : Latch) : Latch := if g.canceled then g else { g with arrived := 0 }
def Latch.cancel (g : Latch) (e : CErr) : Latch := { g with canceled := true, err := some e }
def Latch.clear (g : Latch) : Latch := { g with canceled := false, arrived := 0, err := none }

structure InitFlow where
  extRegistered : Latch := { count := 0 }
  runtimeReady  : Latch := { count := 1 }
  agentReady    : Latch := { count := 65535 }
  restoreReady  : Latch := { count := 1 }
deriving DecidableEq, Repr

structure InvokeFlow where
  runtimeReady    : Latch := { count := 1 }
  runtimeResponse : Latch := { count := 1 }
  agentReady      : Latch := { count := 65535 }
deriving DecidableEq, Repr

/-- a handler parked in `ManagedThread.SuspendUnsafe` together with what it does on wake-up -/
structure Park where
  okStates : List RtState  -- states accepted on wake-up
  next     : RtState       -- state set on successful wake-up
  call     : String        -- which API call is parked ("next", "restorenext")
deriving DecidableEq, Repr

structure Agent where
  name   : String
  ext    : Bool
  st     : ExtState := .started
  subs   : List Ev := []
  flag   : Bool := false      -- operatorConditionValue of its ManagedThread
  parked : Nat := 0           -- number of handlers parked in SuspendUnsafe
  woken  : Nat := 0           -- handlers that have left SuspendUnsafe (Ready→Running done) and have not read the event yet
  errSet : Bool := false
  errType : String := ""
  serial : Nat := 0           -- identity of this agent object (its uuid)
  asked  : Bool := false      -- ghost: its first `next` has walked the init flow's agents-ready gate
deriving DecidableEq, Repr

structure Proc where
  name : String       -- "runtime" or extension base name
  gen  : Nat
  alive : Bool := true
  chanCreated : Bool := false   -- createExitedChannel done
  chanClosed  : Bool := false   -- handleProcessExit closed it
deriving DecidableEq, Repr

/-- supervisor name of an extension process -/
def extFull (name : String) (gen : Nat) : String := s!"extension-{name}-{gen}"

def Proc.full (p : Proc) : String :=
  if p.name == "runtime" then s!"runtime-{p.gen}" else extFull p.name p.gen

inductive Renderer where
  | none
  | invoke (k : Nat) (caller : Nat) (phash : String)
  | shutdown (reason : String)
  | restore
deriving DecidableEq, Repr

inductive Phase where | init | invoke
deriving DecidableEq, Repr
def Phase.str : Phase → String | .init => "init" | .invoke => "invoke"

inductive ShutKind where
  | reset (reason : String)
  | shutdown
deriving DecidableEq, Repr

/-- program counter of the thread that holds the handler-execution mutex -/
inductive OrchPC where
  | idle
  | iAwaitRegistered (ph : Phase)
  | iAwaitRestoreReady (ph : Phase)
  | iAwaitAgentsReady (ph : Phase)
  | vAwaitResponse | vAwaitRuntimeReady | vAwaitAgentsReady
  | sRuntime (k : ShutKind)       -- TERM sent, waiting for exit or the runtime deadline
  | sAgents (k : ShutKind)        -- waiting for the agent goroutines (exit or deadline)
  | sGrace (k : ShutKind)         -- clearExitedChannel: all exited or 2 s
deriving DecidableEq, Repr

/-- requests waiting for the handler-execution mutex -/
inductive HReq where
  | init
  | invoke (k : Nat) (caller : Nat) (phash : String)
  | reset (reason : String) (from_ : Nat)   -- from_: 0 harness, 1 timeout path, 2 release-failure path
  | shutdown (from_ : Nat)                  -- 0 harness, 1 init-failure path of Invoke
deriving DecidableEq, Repr

/-- what the init-failures channel of the interop server holds -/
inductive InitChan where
  | notStarted
  | pending                    -- init still running
  | failure (resetReceived : Bool) (errType : String)   -- a failure waits to be consumed
  | closed
deriving DecidableEq, Repr

/-- `Server.Clear()` takes a failure that nobody has awaited with it (repaired in /repo 90b799c, finding
    F15: it used to stay pending and was handed to the next invocation of the next generation) -/
def InitChan.drain : InitChan → InitChan
  | .failure _ _ => .closed
  | c => c

def InitChan.isFailure : InitChan → Bool
  | .failure _ _ => true
  | _ => false

inductive G3PC where   -- inner goroutine of Invoke: awaitInitialized → (Shutdown) → FastInvoke
  | awaitInit | shutdownWait | shutdownRun | fast | done
deriving DecidableEq, Repr
inductive G4PC where   -- FastInvoke's goroutine: SendRequest → invoker.Wait → done message
  | none | waitMutex | running | done
deriving DecidableEq, Repr
inductive G2PC where   -- release goroutine: AwaitRelease → (Reset) → result
  | awaitRelease | resetWait | resetRun | done
deriving DecidableEq, Repr
inductive G0PC where   -- Invoke's main select
  | selecting | timeoutResetWait | timeoutResetRun | timeoutAwaitRelease | finished
deriving DecidableEq, Repr

/-- the goroutines of one `Server.Invoke` call -/
structure Flight where
  caller : Nat
  k      : Nat                 -- invocation number = request id alias id#k
  phash  : String              -- hash of the (cut) event payload
  g0 : G0PC := .selecting
  g2 : G2PC := .awaitRelease
  g3 : G3PC := .awaitInit
  g4 : G4PC := .none
  timerArmed : Bool := true
  timedOut   : Bool := false
  released   : Option String := none   -- value G2 hands to G0: "ok" or an error name
  body : String := "empty"            -- what was written to this caller's response writer
deriving DecidableEq, Repr

/-- `Server.invokeCtx` -/
structure Resv where
  k : Nat
  caller : Nat
  writer : Nat := 0            -- caller whose response writer FastInvoke attached
  replyStream : Bool := false
  replySent   : Bool := false
  resetStarted : Bool := false  -- Reset() has begun tearing this reservation down
deriving DecidableEq, Repr

/-- an HTTP call of an actor the harness still waits for -/
structure Pending where
  actor : String
  call  : String
  proc  : String    -- full name of the process on whose behalf it was made
deriving DecidableEq, Repr

/-- a timer the emulator armed; fired by the environment -/
inductive Timer where
  | invoke (c : Nat)        -- the function timeout of caller c's `Server.Invoke`
  | rtDeadline | agDeadline | grace   -- shutdown choreography: 30 % runtime deadline, extension deadline, 2 s exit grace
  | resetTail (from_ : Nat) -- not a real timer: the rest of `Server.Reset` after `HandleReset` returned (see Orch.afterReset)
  | restoreHook             -- deadline of the restore hook
deriving DecidableEq, Repr

def Timer.name : Timer → String
  | .invoke c => s!"invoke:{c}" | .rtDeadline => "rtDeadline" | .agDeadline => "agDeadline" | .grace => "grace"
  | .resetTail n => s!"resetTail:{n}" | .restoreHook => "restoreHook"

/-- platform events whose number per init is a property (C15): their own constructor, so that counting
    them does not depend on the text of any line -/
inductive EvKind where
  | initStart | initRuntimeDone | initReport
deriving DecidableEq, Repr

def EvKind.str : EvKind → String
  | .initStart => "initStart" | .initRuntimeDone => "initRuntimeDone" | .initReport => "initReport"

/-- one thing the harness can see. The outcome of a caller of the invoke API is its own constructor, so
    that statements about outcomes do not depend on the text of the other lines. -/
inductive Out where
  | line (s : String)
  | caller (c : Nat) (err body : String)
  | ev (k : EvKind) (rest : String)
deriving DecidableEq, Repr

def Out.str : Out → String
  | .line s => s
  | .caller c err body => s!"caller{c} done err={err} body={body}"
  | .ev k rest => s!"ev {k.str}:{rest}"

structure State where
  -- configuration
  extFiles : List String := []
  timeoutMs : Nat := 1000
  snapshot : Bool := false
  -- orchestrator
  gen : Nat := 0
  initDone : Bool := false
  initFlow : InitFlow := {}
  invFlow  : InvokeFlow := {}
  agents : List Agent := []
  regOn : Bool := true
  cancelDone : Bool := false          -- cancelOnce already used
  rt : Option RtState := none         -- the preregistered runtime object (none = nil)
  rtFlag : Bool := false
  rtParked : List Park := []
  renderer : Renderer := .none
  fatal : Option String := none       -- first fatal error
  shuttingDown : Bool := false
  orch : OrchPC := .idle
  queue : List HReq := []             -- waiting for the handler mutex, FIFO
  procs : List Proc := []
  exitQueue : List (String × Bool) := []   -- exit events (full name, exit status 0?) not yet handled by the watcher
  beh : List (String × String) := []  -- fake process behaviour on SIGTERM: base name ↦ "exit:<code>"
  execFails : List String := []       -- base names whose supervisor Exec fails (the process cannot be launched)
  curInv : Option (Nat × Nat × String) := none   -- the invocation HandleInvoke is working on
  rtDoneReg : Bool := false           -- doRuntimeDomainInit registered its runtime-done defer
  rtDeadlineFired : Bool := false
  agDeadlineFired : Bool := false
  graceFired : Bool := false
  killQueue : List String := []       -- Kill goroutines started by shutdownAgents that have not run yet
  restoreWaiting : Bool := false      -- HandleRestore waits for the runtime-ready gate or the hook deadline
  restoreUserType : String := ""      -- error type of the runtime's restore/init error report
  credKey : Option String := none     -- credentials service: the access key served for the instance token
  shutFrom : Nat := 0                 -- who asked for the running reset/shutdown
  resetErr : Bool := false            -- standalone mode: a fatal error recorded during the reset's shutdown makes Reset() return it
  awaitingExit : List String := []    -- agentsAwaitingExit keys
  watcherStarted : Bool := false
  -- shutdown bookkeeping
  agentWaits : List String := []      -- full names of SHUTDOWN-subscribed agents whose goroutine still waits
  -- interop server
  inited : Bool := false
  initChan : InitChan := .notStarted
  resv : Option Resv := none
  flights : List Flight := []
  pending : List Pending := []        -- harness view: outstanding actor calls
  ids : List (String × Nat) := []     -- harness view: identifier each actor name last obtained
  nextSerial : Nat := 1
  crashed : Bool := false             -- a log.Panic outside an HTTP handler: the process dies
  cached : Option String := none      -- cachedInitErrorResponse (body class)
  doneChan : Option String := none    -- InvokeDoneChan (cap 1): "ok" or error type
  nextK : Nat := 1
  rapidPhaseInvoking : Bool := false
  invokerNil : Bool := true           -- s.invoker == nil
  -- armed timers (names) — fired by the environment
  timers : List Timer := []
  -- output of the current op
  out : List Out := []
deriving Repr, DecidableEq

def State.emit (s : State) (e : String) : State := { s with out := s.out ++ [.line e] }
/-- a counted platform event -/
def State.emitEv (s : State) (k : EvKind) (rest : String) : State := { s with out := s.out ++ [.ev k rest] }
/-- the outcome of caller `c`'s `Server.Invoke` call reaches the harness -/
def State.emitCaller (s : State) (c : Nat) (err body : String) : State := { s with out := s.out ++ [.caller c err body] }
/-- the output of the current op as the harness prints it -/
def State.outs (s : State) : List String := s.out.map Out.str

end Rie.Sys
