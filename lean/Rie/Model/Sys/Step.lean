import Rie.Model.Sys.Types
import Rie.Model.ErrType
/-
The transition functions of the system model. Every function mirrors a Go function; the
comment above it names that function. `settle` runs the internal moves to quiescence.
-/
namespace Rie.Sys
open Rie.SM

/-! ### small helpers -/

def maxAgents : Nat := 10

def evStr : Ev → String
  | .invoke => "INVOKE" | .shutdown => "SHUTDOWN" | .bogus => "BOGUS"

def extStateName : ExtState → String
  | .started => "Started" | .registered => "Registered" | .ready => "Ready" | .running => "Running"
  | .initError => "InitError" | .exitError => "ExitError" | .shutdownFailed => "ShutdownFailed"
  | .exited => "Exited" | .launchError => "LaunchError"

/-- internal agents use the same program as external ones on the states they share, minus the
    init-flow arrival on register and the three platform-only transitions -/
def intProgE : ExtState → AgCall → Option (List (Instr ExtState))
  | .started, .register es => some [.subscribe es, .set .registered]
  | .registered, .ready => some [.set .ready, .flow .initAgentReady false, .suspend [.ready] .running]
  | .registered, .initError => some [.set .initError, .setErrType]
  | .registered, .exitError => some [.set .exitError, .setErrType]
  | .ready, .exitError => some [.set .exitError, .setErrType]
  | .running, .ready => some [.set .ready, .flow .invokeAgentReady false, .suspend [.ready] .running]
  | .running, .exitError => some [.set .exitError, .setErrType]
  | .initError, .initError => some []
  | .exitError, .exitError => some []
  | _, _ => none

def agProg (a : Agent) (c : AgCall) : Option (List (Instr ExtState)) :=
  if a.ext then extProg a.st c else intProgE a.st c

def findAgent (s : State) (n : String) : Option Agent := s.agents.find? (·.name == n)
def findAgentBySerial (s : State) (k : Nat) : Option Agent := s.agents.find? (·.serial == k)
def setAgent (s : State) (a : Agent) : State :=
  { s with agents := s.agents.map fun b => if b.name == a.name then a else b }

def storeFatal (s : State) (t : String) : State :=
  match s.fatal with
  | some _ => s
  | none => { s with fatal := some t }

def subsStr (l : List Ev) : String :=
  "+".intercalate ((canonSubs l).map evStr)

/-- `registrationService.CancelFlows` (guarded by cancelOnce) -/
def cancelFlows (s : State) (e : CErr) : State :=
  if s.cancelDone then s else
  { s with cancelDone := true,
           initFlow := { extRegistered := s.initFlow.extRegistered.cancel e,
                         runtimeReady := s.initFlow.runtimeReady.cancel e,
                         agentReady := s.initFlow.agentReady.cancel e,
                         restoreReady := s.initFlow.restoreReady.cancel e },
           invFlow := { runtimeReady := s.invFlow.runtimeReady.cancel e,
                        runtimeResponse := s.invFlow.runtimeResponse.cancel e,
                        agentReady := s.invFlow.agentReady.cancel e } }

def cancelInitFlow (s : State) (e : CErr) : State :=
  { s with initFlow := { extRegistered := s.initFlow.extRegistered.cancel e,
                         runtimeReady := s.initFlow.runtimeReady.cancel e,
                         agentReady := s.initFlow.agentReady.cancel e,
                         restoreReady := s.initFlow.restoreReady.cancel e } }

/-- a flow-object call made from a state-machine program; returns ok? -/
def flowCall (s : State) : FlowCall → State × Bool
  | .initExternalAgentRegistered =>
      let r := s.initFlow.extRegistered.walk; ({ s with initFlow := { s.initFlow with extRegistered := r.1 } }, r.2)
  | .initRuntimeReady =>
      let r := s.initFlow.runtimeReady.walk; ({ s with initFlow := { s.initFlow with runtimeReady := r.1 } }, r.2)
  | .initAgentReady =>
      let r := s.initFlow.agentReady.walk; ({ s with initFlow := { s.initFlow with agentReady := r.1 } }, r.2)
  | .initRuntimeRestoreReady =>
      let r := s.initFlow.restoreReady.walk; ({ s with initFlow := { s.initFlow with restoreReady := r.1 } }, r.2)
  | .initCancel => (cancelInitFlow s .restoreUser, true)
  | .invokeRuntimeResponse =>
      let r := s.invFlow.runtimeResponse.walk; ({ s with invFlow := { s.invFlow with runtimeResponse := r.1 } }, r.2)
  | .invokeRuntimeReady =>
      let r := s.invFlow.runtimeReady.walk; ({ s with invFlow := { s.invFlow with runtimeReady := r.1 } }, r.2)
  | .invokeAgentReady =>
      let r := s.invFlow.agentReady.walk; ({ s with invFlow := { s.invFlow with agentReady := r.1 } }, r.2)
  | _ => (s, true)

def newestProc (s : State) (name : String) : Option Proc :=
  (s.procs.filter fun p => p.name == name && p.alive).getLast?

def procByFull (s : State) (full : String) : Option Proc := s.procs.find? (·.full == full)

def setProc (s : State) (p : Proc) : State :=
  { s with procs := s.procs.map fun q => if q.full == p.full then p else q }

/-- which process makes the calls of actor `a` ("rt", an extension name, or an internal one) -/
def procOf (s : State) (actor : String) : Option Proc :=
  if actor == "rt" then newestProc s "runtime"
  else if s.extFiles.contains actor then newestProc s actor
  else newestProc s "runtime"

def addPending (s : State) (actor call : String) : State :=
  match procOf s actor with
  | some p => { s with pending := s.pending ++ [{ actor := actor, call := call, proc := p.full }] }
  | none => s

def removeFirst {α : Type} (p : α → Bool) : List α → List α
  | [] => []
  | x :: xs => if p x then xs else x :: removeFirst p xs

/-- the answer to an outstanding call arrives -/
def answer (s : State) (actor call result : String) : State :=
  -- if the caller is gone (its process exited, the connection is closed) nobody sees the answer
  if s.pending.any (fun q => q.actor == actor && q.call == call) then
    let s := { s with pending := removeFirst (fun q => q.actor == actor && q.call == call) s.pending }
    s.emit s!"{actor}.{call}={result}"
  else s

/-- an immediate answer (the call never blocked) -/
def reply (s : State) (actor call result : String) : State := s.emit s!"{actor}.{call}={result}"

def blockedStr (s : State) : String :=
  let xs := s.pending.map fun q => s!"{q.actor}.{q.call}"
  ",".intercalate (xs.toArray.qsort (· < ·)).toList

/-! ### the interop server's reply path -/

def replaceFirst {α : Type} (p : α → Bool) (x : α) : List α → List α
  | [] => []
  | y :: ys => if p y then x :: ys else y :: replaceFirst p x ys

/-- the goroutines of caller `f.caller`'s `Server.Invoke` move on (caller numbers identify calls; the
    first flight of that caller is the one `getFlight` finds) -/
def setFlight (s : State) (f : Flight) : State :=
  { s with flights := replaceFirst (·.caller == f.caller) f s.flights }
def getFlight (s : State) (c : Nat) : Option Flight := s.flights.find? (·.caller == c)

inductive SendRes where | ok | invalidId | responseSent | noStream
deriving DecidableEq

/-- `Server.sendResponseUnsafe` for the non-direct path: write `body` to the reservation's reply
    stream, hand the metrics to `FastInvoke` (its goroutine G3 returns), mark the reply sent. -/
def sendReply (s : State) (k : Nat) (body : String) : State × SendRes :=
  match s.resv with
  | none => (s, .invalidId)
  | some r =>
    if r.k != k then (s, .invalidId)
    else if r.replySent then (s, .responseSent)
    else if !r.replyStream then (s, .noStream)
    else
      let s := { s with resv := some { r with replySent := true } }
      match getFlight s r.caller with
      | some f => (setFlight s { f with body := body, g3 := if f.g3 == .fast then .done else f.g3 }, .ok)
      | none => (s, .ok)

def currentId (s : State) : Option Nat := s.resv.map (·.k)

/-- `Server.Release` -/
def release (s : State) : State := { s with resv := none }


/-- `fatalerror.GetValidRuntimeOrFunctionErrorType` on the header value (the byte-level model of C20) -/
def sanitizeType (t : String) : String :=
  String.fromUTF8! ⟨(Rie.ErrType.sanitize t.toUTF8.toList).toArray⟩

/-! ### Runtime API handlers (lambda/rapi/handler/*.go) -/

/-- run the non-blocking prefix of a runtime state-machine program under the runtime's mutex.
    Result: state, error class, and the park record if the program reached `suspend`. -/
def runRtInstrs (s : State) (cur : RtState) : List (Instr RtState) → State × RtState × Err × Option Park
  | [] => (s, cur, .ok, none)
  | .set x :: is => runRtInstrs s x is
  | .flow f chk :: is =>
    let r := flowCall s f
    if chk && !r.2 then (r.1, cur, .flowErr, none) else runRtInstrs r.1 cur is
  | .suspend ok nx :: _ => (s, cur, .ok, some { okStates := ok, next := nx, call := "" })
  | .subscribe _ :: is => runRtInstrs s cur is
  | .setErrType :: is => runRtInstrs s cur is

/-- what `RenderRuntimeEvent` answers with the current renderer -/
def renderRuntime (s : State) : String :=
  match s.renderer with
  | .invoke k c h => s!"200,id#{k},body={h},arn=ok,ctx=ctx{c}"
  | .restore => "200"
  | .none => "500,InternalServerError"
  | .shutdown _ => "neterr"           -- panics inside the handler; net/http closes the connection

def renderAgent (s : State) : String :=
  match s.renderer with
  | .invoke k c _ => s!"200,INVOKE,id#{k},arn=ok,trace{if c == 0 then "" else toString c}"
  | .shutdown r => s!"200,SHUTDOWN,{r}"
  | .restore => "200,?"
  | .none => "500,InternalServerError"

/-- what the harness shows of the answer: for /restore/next only the status -/
def renderFor (s : State) (call : String) : String :=
  let r := renderRuntime s
  if call == "restorenext" && r.startsWith "200" then "200" else r

/-- GET /runtime/invocation/next (and, with `call = "restorenext"`, /runtime/restore/next) -/
def rtCallBlocking (s : State) (call : String) (c : RtCall) : State :=
  match s.rt with
  | none => reply s "rt" call "neterr"
  | some st =>
    match rtProg st c with
    | none => reply s "rt" call "403,InvalidStateTransition"
    | some is =>
      let (s, st', e, park) := runRtInstrs s st is
      let s := { s with rt := some st' }
      if e != .ok then reply s "rt" call "403,InvalidStateTransition"
      else match park with
        | some p => addPending { s with rtParked := s.rtParked ++ [{ p with call := call }] } "rt" call
        | none => reply s "rt" call (renderFor s call)

/-- a parked runtime handler wakes up (the thread flag is set) -/
def wakeRt (s : State) : Option State :=
  match s.rtParked, s.rtFlag, s.rt with
  | p :: ps, true, some st =>
    let s := { s with rtParked := ps, rtFlag := false }
    if p.okStates.contains st then
      let s := { s with rt := some p.next }
      some (answer s "rt" p.call (renderFor s p.call))
    else some (answer s "rt" p.call "403,InvalidStateTransition")
  | _, _, _ => none

def maxPayload : Nat := 6 * 1024 * 1024 + 100

/-- common tail of response / error: `SendResponse`/`SendErrorResponse` then `ResponseSent` -/
def rtDeliver (s : State) (call : String) (k : Nat) (body : String) (oversize : Option Nat) : State :=
  if let some size := oversize then
    -- ErrorResponseTooLarge → SendErrorResponse(Function.ResponseSizeTooLarge, stating both sizes) → ResponseSent → 413
    let (s, r) := sendReply s k s!"errjson:Function.ResponseSizeTooLarge:{size}:{maxPayload}"
    match r with
    | .ok =>
      match s.rt with
      | some st =>
        match rtProg st .responseSent with
        | some is => let (s, st', e, _) := runRtInstrs s st is
                     if e != .ok then reply { s with rt := some st' } "rt" call "neterr"
                     else reply { s with rt := some st' } "rt" call "413,RequestEntityTooLarge"
        | none => reply s "rt" call "neterr"
      | none => reply s "rt" call "neterr"
    | .invalidId | .responseSent => reply s "rt" call "400,InvalidRequestID"
    | .noStream => reply s "rt" call "neterr"
  else
    let (s, r) := sendReply s k body
    match r with
    | .ok =>
      match s.rt with
      | some st =>
        match rtProg st .responseSent with
        | some is => let (s, st', e, _) := runRtInstrs s st is
                     if e != .ok then reply { s with rt := some st' } "rt" call "neterr"
                     else reply { s with rt := some st' } "rt" call "202"
        | none => reply s "rt" call "neterr"
      | none => reply s "rt" call "neterr"
    | .invalidId | .responseSent => reply s "rt" call "400,InvalidRequestID"
    | .noStream => reply s "rt" call "neterr"

/-- POST /runtime/invocation/{id}/response. `idk` = the invocation number the id names
    (none: an id that names no invocation). -/
def rtResponse (s : State) (idk : Option Nat) (size : Nat) (hash : String) (badMode : Bool) : State :=
  -- AwsRequestIDValidator
  if idk.isNone || idk != currentId s then reply s "rt" "response" "400,InvalidRequestID" else
  match s.rt, idk with
  | some st, some k =>
    match rtProg st .invocationResponse with
    | none => reply s "rt" "response" "403,InvalidStateTransition"
    | some is =>
      let (s, st', _, _) := runRtInstrs s st is
      let s := { s with rt := some st' }
      if badMode then
        let (s, _) := sendReply s k "empty"
        reply s "rt" "response" "400,InvalidFunctionResponseMode"
      else rtDeliver s "response" k (if size == 0 then "empty" else s!"bytes:{hash}") (if size > maxPayload then some size else none)
  | _, _ => reply s "rt" "response" "neterr"

/-- POST /runtime/invocation/{id}/error -/
def rtError (s : State) (idk : Option Nat) (etype : String) : State :=
  if idk.isNone || idk != currentId s then reply s "rt" "error" "400,InvalidRequestID" else
  match s.rt, idk with
  | some st, some k =>
    match rtProg st .invocationErrorResponse with
    | none => reply s "rt" "error" "403,InvalidStateTransition"
    | some is =>
      let (s, st', _, _) := runRtInstrs s st is
      rtDeliver { s with rt := some st' } "error" k s!"errjson:{etype}" none
  | _, _ => reply s "rt" "error" "neterr"

/-- POST /runtime/init/error -/
def rtInitError (s : State) (etype : String) : State :=
  match s.rt with
  | none => reply s "rt" "initerror" "neterr"
  | some st =>
    if st == .restoring then
      match rtProg st .restoreError with
      | none => reply s "rt" "initerror" "403,InvalidStateTransition"
      | some is => let (s, st', _, _) := runRtInstrs s st is
                   reply { s with rt := some st', restoreUserType := sanitizeType etype } "rt" "initerror" "202"
    else
    match rtProg st .initError with
    | none => reply s "rt" "initerror" "403,InvalidStateTransition"
    | some is =>
      let (s, st', _, _) := runRtInstrs s st is
      let s := { s with rt := some st' }
      -- SendInitErrorResponse
      if s.rapidPhaseInvoking then
        match currentId s with
        | some k =>
          let (s, r) := sendReply s k s!"errjson:{etype}"
          match r with
          | .ok => reply s "rt" "initerror" "202"
          | .invalidId | .responseSent => reply s "rt" "initerror" "400,InvalidRequestID"
          | .noStream => reply s "rt" "initerror" "neterr"
        | none => reply s "rt" "initerror" "400,InvalidRequestID"
      else reply { s with cached := some s!"errjson:{etype}" } "rt" "initerror" "202"

/-- POST /runtime/restore/error (snapshot mode only) -/
def rtRestoreError (s : State) (etype : String) : State :=
  match s.rt with
  | none => reply s "rt" "restoreerror" "neterr"
  | some st =>
    match rtProg st .restoreError with
    | none => reply s "rt" "restoreerror" "403,InvalidStateTransition"
    | some is =>
      let (s, st', _, _) := runRtInstrs s st is
      reply { s with rt := some st', restoreUserType := sanitizeType etype } "rt" "restoreerror" "202"

/-- GET /credentials (snapshot mode only): served only for the per-instance token -/
def rtCreds (s : State) (tok : String) : State :=
  match s.credKey with
  | some k => if tok == "good" then reply s "rt" s!"creds:{tok}" s!"200,key={k}" else reply s "rt" s!"creds:{tok}" "404"
  | none => reply s "rt" s!"creds:{tok}" "404"

/-! ### Extensions API handlers -/

def validEvents (ext : Bool) (es : List Ev) : Bool :=
  es.all fun e => if ext then validExt e == .ok else validInt e == .ok

/-- run an agent program up to its suspend; returns the agent, the state, whether it parked -/
def runAgInstrs (et : String) (s : State) (a : Agent) : List (Instr ExtState) → State × Agent × Bool
  | [] => (s, a, false)
  | .set x :: is => runAgInstrs et s { a with st := x } is
  | .flow f _ :: is =>
    -- ghost: the agent's arrival at the init flow's agents-ready gate was counted
    runAgInstrs et (flowCall s f).1 (if f == .initAgentReady && (flowCall s f).2 then { a with asked := true } else a) is
  | .suspend _ _ :: _ => (s, a, true)
  | .subscribe es :: is => runAgInstrs et s { a with subs := es.foldl (fun acc e => insertEv e acc) a.subs } is
  | .setErrType :: is => runAgInstrs et s { a with errSet := true, errType := et } is

def idsSet (s : State) (name : String) (serial : Nat) : State :=
  { s with ids := (s.ids.filter (·.1 != name)) ++ [(name, serial)] }

/-- POST /extension/register. `variant`: "" | "noname" | "badjson" | "cfgkeys" -/
def agRegister (s : State) (name : String) (es : List Ev) (variant : String) : State :=
  if variant == "noname" then reply s name "register" "403,Extension.InvalidExtensionName" else
  if variant == "badjson" || variant == "cfgkeys" then reply s name "register" "403,InvalidRequestFormat" else
  match (s.agents.find? fun a => a.ext && a.name == name) with
  | some a =>
    if !validEvents true es then reply s name "register" "403,Extension.InvalidEventType" else
    match agProg a (.register es) with
    | none => reply s name "register" "403,Extension.InvalidExtensionState"
    | some is =>
      let (s, a, _) := runAgInstrs "" s a is
      reply (idsSet (setAgent s a) name a.serial) name "register" "200,meta=ok"
  | none =>
    if !validEvents false es then reply s name "register" "403,Extension.InvalidEventType" else
    if !s.regOn then reply s name "register" "403,Extension.RegistrationClosed" else
    if s.agents.length ≥ maxAgents then reply s name "register" "403,Extension.TooManyExtensions" else
    if (findAgent s name).isSome then reply s name "register" "403,Extension.InvalidExtensionState" else
    let a : Agent := { name := name, ext := false, serial := s.nextSerial }
    let s := { s with nextSerial := s.nextSerial + 1 }
    match agProg a (.register es) with
    | none => reply { s with agents := s.agents ++ [a] } name "register" "403,Extension.InvalidExtensionState"
    | some is =>
      let (s, a, _) := runAgInstrs "" s a is
      reply (idsSet { s with agents := s.agents ++ [a] } name a.serial) name "register" "200,meta=ok"

/-- resolve the identifier the harness sends for `name`; `mode`: "" | "noid" | "badid" | "unknownid" |
    "oldid" (the identifier issued to that name in an earlier generation: every reset empties both
    identifier maps, so it is unknown) -/
def resolveId (s : State) (name mode : String) : Except String Agent :=
  if mode == "noid" then .error "403,Extension.MissingExtensionIdentifier" else
  if mode == "badid" then .error "403,Extension.InvalidExtensionIdentifier" else
  if mode == "unknownid" || mode == "oldid" then .error "403,Extension.UnknownExtensionIdentifier" else
  match s.ids.lookup name with
  | none => .error "403,Extension.MissingExtensionIdentifier"
  | some k =>
    match findAgentBySerial s k with
    | some a => .ok a
    | none => .error "403,Extension.UnknownExtensionIdentifier"

/-- GET /extension/event/next -/
def agNext (s : State) (name mode : String) : State :=
  match resolveId s name mode with
  | .error e => reply s name "next" e
  | .ok a =>
    match agProg a .ready with
    | none => reply s name "next" "403,Extension.InvalidExtensionState"
    | some is =>
      let (s, a, parked) := runAgInstrs "" s a is
      if parked then addPending (setAgent s { a with parked := a.parked + 1 }) name "next"
      else reply (setAgent s a) name "next" (renderAgent s)

/-- which of several runnable handlers the Go scheduler runs: the first or the last in agent order -/
def pickAgent (lifo : Bool) (p : Agent → Bool) (l : List Agent) : Option Agent :=
  if lifo then l.reverse.find? p else l.find? p

/-- a parked agent handler wakes up: it leaves `SuspendUnsafe` (consuming the condition value) and, still
    under the thread's lock, moves Ready → Running (`ExternalAgentRunningState.Ready`); the event is read
    later, without the lock (`renderWoken`) -/
def wakeAgent (lifo : Bool) (s : State) : Option State :=
  match pickAgent lifo (fun a => a.parked > 0 && a.flag) s.agents with
  | none => none
  | some a =>
    let a := { a with parked := a.parked - 1, flag := false }
    -- the harness-side name under which the call was made is the agent's name
    if a.st == .ready then some (setAgent s { a with st := .running, woken := a.woken + 1 })
    else some (answer (setAgent s a) a.name "next" "403,Extension.InvalidExtensionState")

/-- a handler that has woken up reads the current event (`RenderAgentEvent`) and answers: whatever the
    renderer is by now — a release and the reading of the event are not one atomic step -/
def renderWoken (lifo : Bool) (s : State) : Option State :=
  match pickAgent lifo (fun a => a.woken > 0) s.agents with
  | none => none
  | some a =>
    let s := setAgent s { a with woken := a.woken - 1 }
    some (answer s a.name "next" (renderAgent s))

/-- POST /extension/init/error and /extension/exit/error -/
def agReport (s : State) (name call etype mode : String) : State :=
  match resolveId s name mode with
  | .error e => reply s name call e
  | .ok a =>
    if etype == "notype" then reply s name call "403,Extension.MissingHeader" else
    let c : AgCall := if call == "initerror" then .initError else .exitError
    match agProg a c with
    | none => reply s name call "403,Extension.InvalidExtensionState"
    | some is =>
      let (s, a, _) := runAgInstrs etype s a is
      let s := storeFatal (setAgent s a) (if call == "initerror" then "Extension.InitError" else "Extension.ExitError")
      reply s name call "202"

end Rie.Sys
