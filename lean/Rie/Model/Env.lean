/-
Model `Env`: the process-environment layers of `lambda/rapidcore/env` (environment.go,
constants.go, customer.go, util.go) and the `KEY=VALUE` wire form.

Representation. A Go `map[string]string` is an association list `List (String × String)` read
with `List.lookup` (first match), so `m[k] = v` is `(k, v) :: m`. A Go string is a byte sequence;
it is represented by the `String` whose characters have the code points of those bytes (byte `b` ↦
`Char.ofNat b`). The code under `env` only compares keys for equality, tests the prefix `"_"`
and cuts at the first `'='` — all of which commute with this embedding — and the theorems hold for
every `String`, so in particular for every embedded byte string. The `'='` cut is defined on
`List Char`.

The key sets are NOT written here: they come from `Rie.Gen.EnvKeys`, regenerated from the built
code by `envdrv keys` on every check run.

Core Lean only (the oracle executable links this file).
-/
import Rie.Gen.EnvKeys

namespace Rie.Env
open Rie.Gen.EnvKeys

abbrev Layer := List (String × String)

/-- `m[k] = v` -/
def put (m : Layer) (k v : String) : Layer := (k, v) :: m

/-- `mapUnion(maps...)`: "last maps in argument overwrite values of ones before". -/
def union : List Layer → Layer
  | [] => []
  | m :: ms => union ms ++ m

/-- `mapExclude(m, cond)` -/
def exclude (m : Layer) (cond : String → Bool) : Layer := m.filter fun p => !cond p.1

/-- the first defined value of a priority list -/
def firstSome {α : Type} : List (Option α) → Option α
  | [] => none
  | some a :: _ => some a
  | none :: r => firstSome r

/-- `strings.HasPrefix(key, "_")` -/
def underscored (k : String) : Bool :=
  match k.toList with
  | '_' :: _ => true
  | _ => false

/-- `lookupEnv(keys)`: the entries of the process environment `proc` whose key is in `keys`
    (`os.LookupEnv`: a variable that is set to the empty string is kept, an unset one is not). -/
def lookupEnv (keys : List String) (proc : Layer) : Layer :=
  keys.filterMap fun k => (proc.lookup k).map fun v => (k, v)

structure Environment where
  customer : Layer
  rapid : Layer
  platform : Layer
  runtime : Layer
  platformUnreserved : Layer
  credentials : Layer
  runtimeAPISet : Bool
  initEnvVarsSet : Bool
deriving Repr

/-- `NewEnvironment()` in a process whose environment is `proc`. -/
def newEnvironment (proc : Layer) : Environment where
  rapid := lookupEnv internalKeys proc
  platform := lookupEnv platformKeys proc
  runtime := lookupEnv runtimeKeys proc
  platformUnreserved := lookupEnv platformUnreservedKeys proc
  customer := []
  credentials := []
  runtimeAPISet := false
  initEnvVarsSet := false

/-- `fmt.Sprintf("http://%s:%d/2021-04-23/credentials", host, port)` -/
def credentialsURI (host : String) (port : Int) : String :=
  "http://" ++ host ++ ":" ++ toString port ++ "/2021-04-23/credentials"

/-- The exported mutators of `Environment`. -/
inductive Op where
  | storeRuntimeAPI (addr : String)
  | setHandler (h : String)
  | setExecutionEnv (v : String)
  | setTaskRoot (v : String)
  | setRuntimeDir (v : String)
  | storeFromInit (customer : Layer) (handler awsKey awsSecret awsSession funcName funcVer : String)
  | storeFromInitCaching (host : String) (port : Int) (customer : Layer)
      (handler funcName funcVer token : String)
  | storeFromCLI (vars : Layer)
deriving Repr

/-- `storeNonCredentialEnvironmentVariablesFromInit` -/
def storeNonCredential (e : Environment) (cust : Layer) (handler funcName funcVer : String) :
    Environment :=
  let rt := if handler = "" then e.runtime else put e.runtime handlerKey handler
  let p1 := if funcName = "" then e.platform else put e.platform fnNameKey funcName
  let p2 := if funcVer = "" then p1 else put p1 fnVersionKey funcVer
  { e with runtime := rt, platform := p2, customer := union [e.customer, cust],
           initEnvVarsSet := true }

def step (e : Environment) : Op → Environment
  | .storeRuntimeAPI addr => { e with platform := put e.platform apiKey addr, runtimeAPISet := true }
  | .setHandler h => { e with runtime := put e.runtime handlerKey h }
  | .setExecutionEnv v => { e with runtime := put e.runtime executionEnvKey v }
  | .setTaskRoot v => { e with runtime := put e.runtime taskRootKey v }
  | .setRuntimeDir v => { e with runtime := put e.runtime runtimeDirKey v }
  | .storeFromInit cust h ak sk st fn fv =>
      let c := put (put (put e.credentials accessKeyIdKey ak) secretKeyKey sk) sessionTokenKey st
      storeNonCredential { e with credentials := c } cust h fn fv
  | .storeFromInitCaching host port cust h fn fv tok =>
      let c := put (put e.credentials cachingUriKey (credentialsURI host port)) cachingTokenKey tok
      storeNonCredential { e with credentials := c } cust h fn fv
  | .storeFromCLI vars => { e with customer := union [e.customer, vars] }

def run (e : Environment) (ops : List Op) : Environment := ops.foldl step e

/-- `RuntimeExecEnv` / `AgentExecEnv` return only under this condition (else `log.Fatal`). -/
def Environment.ready (e : Environment) : Bool := e.initEnvVarsSet && e.runtimeAPISet

/-- the map `RuntimeExecEnv()` returns -/
def runtimeEnv (e : Environment) : Layer :=
  union [e.customer, e.platformUnreserved, e.credentials, e.runtime, e.platform]

/-- `excludeCondition` of `AgentExecEnv` -/
def agentExcluded (k : String) : Bool := extensionExcludedKeys.contains k || underscored k

/-- the map `AgentExecEnv()` returns -/
def agentEnv (e : Environment) : Layer :=
  exclude (union [e.customer, e.credentials, e.platform]) agentExcluded

/-! ### the `KEY=VALUE` wire form -/

/-- `key + "=" + value` (`LocalSupervisor.Exec`; also what `os.Environ()` hands out) -/
def renderKV (p : String × String) : String := p.1 ++ "=" ++ p.2

/-- cut at the FIRST `'='`; `none` if there is none -/
def splitChars : List Char → Option (List Char × List Char)
  | [] => none
  | c :: cs =>
    if c = '=' then some ([], cs)
    else match splitChars cs with
      | some (k, v) => some (c :: k, v)
      | none => none

/-- `SplitEnvironmentVariable` (`strings.SplitN(s, "=", 2)`, error when fewer than 2 parts). The
    front end (`cmd/aws-lambda-rie/handlers.go`, `InitHandler`) uses the same `SplitN` and indexes
    part 1 unconditionally: `none` is an index-out-of-range panic there. -/
def split (s : String) : Option (String × String) :=
  match splitChars s.toList with
  | some (k, v) => some (String.ofList k, String.ofList v)
  | none => none

/-! ### `CustomerEnvironmentVariables()` (customer.go; used by the standalone front end) -/

/-- exemptions hard-coded inside `isInternalEnvVar` -/
def customerAllowedUnderscore : List String :=
  ["_HANDLER", "_AWS_XRAY_DAEMON_ADDRESS", "_AWS_XRAY_DAEMON_PORT", "_LAMBDA_TELEMETRY_LOG_FD"]

def isInternalEnvVar (k : String) : Bool := underscored k && !customerAllowedUnderscore.contains k

def isCustomer (k : String) : Bool :=
  !internalKeys.contains k && !runtimeKeys.contains k && !platformKeys.contains k &&
  !credentialKeys.contains k && !platformUnreservedKeys.contains k && !isInternalEnvVar k

/-- over the `os.Environ()` strings, later entries overwrite -/
def customerEnvironmentVariables (environ : List String) : Layer :=
  environ.foldl (fun acc kv =>
    match split kv with
    | some (k, v) => if isCustomer k then put acc k v else acc
    | none => acc) []

/-! ### canonical form of a map (for comparison with the implementation) -/

/-- one entry per key (the one `lookup` finds), order of first occurrence -/
def dedup (m : Layer) : Layer :=
  m.foldr (fun p acc => p :: acc.filter fun q => q.1 != p.1) []

/-! ### the RIE front end (`cmd/aws-lambda-rie`: `InitHandler`, `SandboxContext.Init`,
`handleInit`), for the end-to-end tie: which calls are made for a process started with the
`os.Environ()` strings `environ`. -/

def getenv (proc : Layer) (k : String) : String := (proc.lookup k).getD ""

/-- `GetenvWithDefault` -/
def getenvWithDefault (proc : Layer) (k d : String) : String :=
  if getenv proc k = "" then d else getenv proc k

/-- Go's `syscall.copyenv`: the first mention of a key wins; entries without `'='` are invisible
    to `os.Getenv` -/
def procOfEnviron (environ : List String) : Layer := environ.filterMap split

/-- `additionalFunctionEnvironmentVariables` of `InitHandler` -/
def frontCustomer (environ : List String) : Option Layer :=
  environ.foldl (fun acc kv =>
    match acc, split kv with
    | some m, some (k, v) => some (put m k v)
    | _, _ => none)
    (some [("AWS_LAMBDA_FUNCTION_NAME", "test_function"),
           ("AWS_LAMBDA_FUNCTION_MEMORY_SIZE", "3008"),
           ("AWS_LAMBDA_FUNCTION_VERSION", "$LATEST"),
           ("AWS_LAMBDA_LOG_STREAM_NAME", "$LATEST"),
           ("AWS_LAMBDA_LOG_GROUP_NAME", "/aws/lambda/Functions")])

/-- The calls the emulator makes on a fresh `Environment` for the first invoke.
    `handlerArg` is the handler from the command line (`""` = none), `caching` is
    `--enable-init-caching` with the server's host/port and the random token. -/
def frontOps (environ : List String) (handlerArg addr : String)
    (caching : Option (String × Int × String)) : Option (List Op) :=
  match frontCustomer environ with
  | none => none
  | some cust =>
    let proc := procOfEnviron environ
    let handler := getenvWithDefault proc "AWS_LAMBDA_FUNCTION_HANDLER" (getenv proc "_HANDLER")
    let fn := getenvWithDefault proc "AWS_LAMBDA_FUNCTION_NAME" "test_function"
    let fv := getenvWithDefault proc "AWS_LAMBDA_FUNCTION_VERSION" "$LATEST"
    let pre := (if handlerArg = "" then [] else [Op.setHandler handlerArg]) ++ [Op.storeRuntimeAPI addr]
    some (pre ++ [match caching with
      | none => Op.storeFromInit cust handler (getenv proc "AWS_ACCESS_KEY_ID")
          (getenv proc "AWS_SECRET_ACCESS_KEY") (getenv proc "AWS_SESSION_TOKEN") fn fv
      | some (host, port, tok) => Op.storeFromInitCaching host port cust handler fn fv tok])

end Rie.Env
