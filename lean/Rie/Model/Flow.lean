import Rie.Model.Gate
/-
Model L0: the flow objects of `lambda/core/flow.go` — a fixed vector of independent gates.
A flow-level call is a *sequence* of per-gate operations (fan-out is not atomic).

InitFlow gates:   0 externalAgentsRegistered (count 0), 1 runtimeReady (1),
                  2 agentReady (65535), 3 runtimeRestoreReady (1)
InvokeFlow gates: 0 runtimeReady (1), 1 runtimeResponse (1), 2 agentReady (65535)
-/
namespace Rie.Flow
open Rie.Gate

structure Flow where
  gates : List Gate.Sys
deriving DecidableEq, Repr

/-- operation `o` on gate `k` -/
structure FOp where
  k : Nat
  o : Gate.Op
deriving DecidableEq, Repr

def step (f : Flow) (x : FOp) : Flow × Gate.Ret :=
  match f.gates[x.k]? with
  | some s => let r := Gate.step s x.o; ({ gates := f.gates.set x.k r.1 }, r.2)
  | none => (f, .unit)

def run (f : Flow) (ops : List FOp) : Flow := ops.foldl (fun f x => (step f x).1) f

/-- the ops of a flow-level history that concern gate `k` -/
def proj (k : Nat) (ops : List FOp) : List Gate.Op :=
  ops.filterMap fun x => if x.k = k then some x.o else none

def initFlow (nw : Nat) : Flow :=
  { gates := [Gate.init 0 nw, Gate.init 1 nw, Gate.init 65535 nw, Gate.init 1 nw] }

def invokeFlow (nw : Nat) : Flow :=
  { gates := [Gate.init 1 nw, Gate.init 1 nw, Gate.init 65535 nw] }

/-- names of the flow-level API calls and their expansion into per-gate ops, in the order
    the Go code performs them -/
inductive InitCall where
  | setExternalAgentsRegisterCount (n : Nat) | setAgentsReadyCount (n : Nat)
  | externalAgentRegistered | runtimeReady | agentReady | runtimeRestoreReady
  | cancelWithError (e : Option Nat) | clear
  | awaitRuntimeReadyExpired     -- AwaitRuntimeReadyWithDeadline whose deadline passes with the gate closed
deriving DecidableEq, Repr

/-- the number under which the harness knows `interop.ErrRestoreHookTimeout` -/
def errRestoreHookTimeout : Nat := 3

def InitCall.expand : InitCall → List FOp
  | .setExternalAgentsRegisterCount n => [⟨0, .setCount n⟩]
  | .setAgentsReadyCount n => [⟨2, .setCount n⟩]
  | .externalAgentRegistered => [⟨0, .walk⟩]
  | .runtimeReady => [⟨1, .walk⟩]
  | .agentReady => [⟨2, .walk⟩]
  | .runtimeRestoreReady => [⟨3, .walk⟩]
  | .cancelWithError e => [⟨0, .cancel e⟩, ⟨1, .cancel e⟩, ⟨2, .cancel e⟩, ⟨3, .cancel e⟩]
  | .clear => [⟨0, .clear⟩, ⟨1, .clear⟩, ⟨2, .clear⟩, ⟨2, .setCount 65535⟩, ⟨3, .clear⟩]   -- the agents-ready gate expects the maximum again
  -- the restore hook's timeout cancels the WHOLE flow (every gate, same error), not only the gate awaited
  | .awaitRuntimeReadyExpired => [⟨0, .cancel (some errRestoreHookTimeout)⟩, ⟨1, .cancel (some errRestoreHookTimeout)⟩,
                                  ⟨2, .cancel (some errRestoreHookTimeout)⟩, ⟨3, .cancel (some errRestoreHookTimeout)⟩]

inductive InvokeCall where
  | initializeBarriers | setAgentsReadyCount (n : Nat)
  | runtimeResponse | runtimeReady | agentReady
  | cancelWithError (e : Option Nat) | clear
deriving DecidableEq, Repr

def InvokeCall.expand : InvokeCall → List FOp
  | .initializeBarriers => [⟨0, .reset⟩, ⟨1, .reset⟩, ⟨2, .reset⟩]
  | .setAgentsReadyCount n => [⟨2, .setCount n⟩]
  | .runtimeResponse => [⟨1, .walk⟩]
  | .runtimeReady => [⟨0, .walk⟩]
  | .agentReady => [⟨2, .walk⟩]
  | .cancelWithError e => [⟨1, .cancel e⟩, ⟨0, .cancel e⟩, ⟨2, .cancel e⟩]
  | .clear => [⟨0, .clear⟩, ⟨1, .clear⟩, ⟨2, .clear⟩]

end Rie.Flow
