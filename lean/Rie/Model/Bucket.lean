/-
Model of the token bucket of `lambda/core/bandwidthlimiter/throttler.go` (`Bucket`,
`produceTokens`, `consumeTokens`) and of the admission loop of
`Throttler.bandwidthLimitingWrite`.

  produceTokens:  if tokenCount < capacity { tokenCount = min64(tokenCount+refillNumber, capacity) }
  consumeTokens:  if n <= tokenCount { tokenCount -= n; return true }; return false
  bandwidthLimitingWrite(p): n > capacity → ErrBufferSizeTooLarge (nothing written);
      loop { if consumeTokens(n) { write p; return }; wait for the next tick }

Time is the number of ticks: the throttler goroutine calls `produceTokens` once per
`time.Ticker` event (every `refillInterval` = 125 ms). All quantities are `int64` in Go; the
largest value that can occur is `capacity + refillNumber ≤ 64 MiB + 8 MiB`, so `Nat` is exact.

Core Lean only (the oracle executable links this file).
-/
namespace Rie.Bucket

structure Bucket where
  capacity : Nat
  tokens   : Nat
  refill   : Nat
deriving DecidableEq, Repr

/-- what `NewBucket` accepts: `capacity > 0`, `refillNumber > 0`, `0 ≤ initial ≤ capacity`
    (the interval is positive by construction: 125 ms) -/
def Bucket.WF (b : Bucket) : Prop := 0 < b.capacity ∧ 0 < b.refill ∧ b.tokens ≤ b.capacity

instance (b : Bucket) : Decidable b.WF := by unfold Bucket.WF; infer_instance

/-- `Bucket.produceTokens` -/
def produce (b : Bucket) : Bucket :=
  if b.tokens < b.capacity then { b with tokens := min (b.tokens + b.refill) b.capacity } else b

/-- `Bucket.consumeTokens(n)` -/
def consume (b : Bucket) (n : Nat) : Bucket × Bool :=
  if n ≤ b.tokens then ({ b with tokens := b.tokens - n }, true) else (b, false)

inductive Op where
  | tick
  | consume (n : Nat)
deriving DecidableEq, Repr

/-- bucket + ghost counters: bytes admitted so far, ticks so far -/
structure St where
  b        : Bucket
  consumed : Nat
  ticks    : Nat
deriving DecidableEq, Repr

def step (s : St) : Op → St
  | .tick => { s with b := produce s.b, ticks := s.ticks + 1 }
  | .consume n =>
      let r := consume s.b n
      { s with b := r.1, consumed := if r.2 then s.consumed + n else s.consumed }

def run (s : St) (ops : List Op) : St := ops.foldl step s

def init (capacity tokens refill : Nat) : St :=
  { b := { capacity := capacity, tokens := tokens, refill := refill }, consumed := 0, ticks := 0 }

def tickCount (ops : List Op) : Nat := ops.countP (· == .tick)

/-- `k` consecutive ticks -/
def produceN : Nat → Bucket → Bucket
  | 0, b => b
  | k + 1, b => produceN k (produce b)

/-- number of ticks `bandwidthLimitingWrite` waits before a buffer of `n` bytes is admitted:
    `⌈(n − tokens)/refill⌉` -/
def ticksNeeded (b : Bucket) (n : Nat) : Nat := (n - b.tokens + b.refill - 1) / b.refill

/-- `bandwidthLimitingWrite` for one buffer of `n ≤ capacity` bytes, with a tick source that never
    stops: returns the number of ticks waited and the bucket afterwards. `none` = the
    `ErrBufferSizeTooLarge` refusal. -/
def admitOne (b : Bucket) (n : Nat) : Option (Nat × Bucket) :=
  if n > b.capacity then none
  else
    let k := ticksNeeded b n
    some (k, (consume (produceN k b) n).1)

/-- a whole copy: the buffers are admitted one after the other; total ticks waited. Structural
    recursion on the list of buffers: the copy terminates given ticks. -/
def admitAll : Bucket → List Nat → Option (Nat × Bucket)
  | b, [] => some (0, b)
  | b, n :: ns =>
    match admitOne b n with
    | none => none
    | some (k, b') =>
      match admitAll b' ns with
      | none => none
      | some (k', b'') => some (k + k', b'')

/-- `refillNumber := ResponseBandwidthRate * DefaultRefillIntervalMs / 1000` (`util.go`) -/
def refillOf (rate intervalMs : Nat) : Nat := rate * intervalMs / 1000

end Rie.Bucket
