/-
Model L1: the three state machines of `lambda/core` (`states.go`, `externalagent_states.go`,
`internalagent_states.go`) as small straight-line programs per (state, call).

A call is a list of instructions executed under the object's mutex:
  `set s`          — `setStateUnsafe(s)`
  `flow c chk`     — a call on a flow object; if `chk` the method returns that call's error at once
  `suspend ok nx`  — `ManagedThread.SuspendUnsafe()`: the mutex is released while parked; on wake-up
                     the state found must be in `ok`, else `ErrConcurrentStateModification`;
                     then `setStateUnsafe(nx)`
  `subscribe es`   — validate and record the events one by one (stops at the first invalid one)
  `setErrType`     — record the reported error type
`none` = the embedded "disallow everything" default: `ErrNotAllowed`, nothing else happens.

The generated tables (Rie/Gen/*Table.lean, regenerated from the compiled code on every run) are
compared against `exec` for every state × call × wake-up state × failing flow call.
-/
namespace Rie.SM

inductive Err where
  | ok | notAllowed | concurrent | flowErr | invalidEvent | shutdownNotSupported | other
deriving DecidableEq, Repr

inductive FlowCall where
  | initSetExternalAgentsRegisterCount | initSetAgentsReadyCount | initExternalAgentRegistered
  | initAwaitExternalAgentsRegistered | initRuntimeReady | initAwaitRuntimeReady
  | initAwaitRuntimeReadyWithDeadline | initAgentReady | initAwaitAgentsReady | initCancel
  | initRuntimeRestoreReady | initAwaitRuntimeRestoreReady | initClear
  | invokeInitializeBarriers | invokeAwaitRuntimeResponse | invokeAwaitRuntimeReady
  | invokeRuntimeResponse | invokeRuntimeReady | invokeSetAgentsReadyCount | invokeAgentReady
  | invokeAwaitAgentsReady | invokeCancel | invokeClear
  | suspend
deriving DecidableEq, Repr

inductive Ev where
  | invoke | shutdown | bogus
deriving DecidableEq, Repr

/-- generic instruction over a state type `σ` -/
inductive Instr (σ : Type) where
  | set (s : σ)
  | flow (c : FlowCall) (checked : Bool)
  | suspend (ok : List σ) (next : σ)
  | subscribe (es : List Ev)
  | setErrType

structure Obs (σ : Type) where
  err   : Err
  final : σ
  calls : List FlowCall
  subs  : List Ev := []
  errTypeSet : Bool := false
deriving DecidableEq, Repr

structure Env (σ : Type) where
  wake   : Option σ      -- state another thread put in place while the caller was parked
  failAt : Option Nat    -- index (among flow calls) of the call that fails

structure Cfg (σ : Type) where
  cur   : σ
  calls : List FlowCall := []
  nflow : Nat := 0
  subs  : List Ev := []
  errTypeSet : Bool := false

def insertEv (e : Ev) (l : List Ev) : List Ev := if l.contains e then l else l ++ [e]

def canonSubs (l : List Ev) : List Ev :=
  [Ev.invoke, Ev.shutdown, Ev.bogus].filter (fun e => l.contains e)

/-- subscribe events one by one; stop at the first one `valid` rejects -/
def subscribeAll (valid : Ev → Err) : List Ev → List Ev → Err × List Ev
  | [], acc => (.ok, acc)
  | e :: es, acc =>
    match valid e with
    | .ok => subscribeAll valid es (insertEv e acc)
    | r => (r, acc)

def execInstrs {σ : Type} [DecidableEq σ] (valid : Ev → Err) (env : Env σ) :
    List (Instr σ) → Cfg σ → Obs σ
  | [], c => ⟨.ok, c.cur, c.calls, canonSubs c.subs, c.errTypeSet⟩
  | .set s :: is, c => execInstrs valid env is { c with cur := s }
  | .flow f chk :: is, c =>
    let c' := { c with calls := c.calls ++ [f], nflow := c.nflow + 1 }
    if chk && env.failAt == some c.nflow then ⟨.flowErr, c'.cur, c'.calls, canonSubs c'.subs, c'.errTypeSet⟩
    else execInstrs valid env is c'
  | .suspend ok next :: is, c =>
    let c' := { c with calls := c.calls ++ [FlowCall.suspend], cur := env.wake.getD c.cur }
    if ok.contains c'.cur then execInstrs valid env is { c' with cur := next }
    else ⟨.concurrent, c'.cur, c'.calls, canonSubs c'.subs, c'.errTypeSet⟩
  | .subscribe es :: is, c =>
    match subscribeAll valid es c.subs with
    | (.ok, subs) => execInstrs valid env is { c with subs := subs }
    | (r, subs) => ⟨r, c.cur, c.calls, canonSubs subs, c.errTypeSet⟩
  | .setErrType :: is, c => execInstrs valid env is { c with errTypeSet := true }

def exec {σ : Type} [DecidableEq σ] (valid : Ev → Err) (prog : Option (List (Instr σ))) (s : σ) (env : Env σ) : Obs σ :=
  match prog with
  | none => ⟨.notAllowed, s, [], [], false⟩
  | some is => execInstrs valid env is { cur := s }

/-! ### Runtime -/

inductive RtState where
  | started | initError | ready | running | restoreReady | restoring
  | invocationResponse | invocationErrorResponse | responseSent | restoreError
deriving DecidableEq, Repr

inductive RtCall where
  | initError | ready | restoreReady | invocationResponse | invocationErrorResponse
  | responseSent | restoreError
deriving DecidableEq, Repr

def rtProg : RtState → RtCall → Option (List (Instr RtState))
  | .started, .ready => some [.set .ready, .flow .initRuntimeRestoreReady true, .flow .initRuntimeReady true,
                              .suspend [.ready, .running] .running]
  | .started, .restoreReady => some [.set .restoreReady, .flow .initRuntimeRestoreReady true,
                              .suspend [.restoreReady, .restoring] .restoring]
  | .started, .initError => some [.set .initError]
  | .restoring, .ready => some [.set .ready, .flow .initRuntimeReady true, .suspend [.ready, .running] .running]
  | .restoring, .restoreError => some [.set .restoreError, .flow .initCancel false]
  | .ready, .ready => some [.suspend [.ready, .running] .running]
  | .running, .ready => some []
  | .running, .invocationResponse => some [.set .invocationResponse]
  | .running, .invocationErrorResponse => some [.set .invocationErrorResponse]
  | .invocationResponse, .responseSent => some [.set .responseSent, .flow .invokeRuntimeResponse true]
  | .invocationErrorResponse, .responseSent => some [.set .responseSent, .flow .invokeRuntimeResponse true]
  | .responseSent, .ready => some [.set .ready, .flow .invokeRuntimeReady true, .suspend [.ready, .running] .running]
  | _, _ => none

def noEvents : Ev → Err := fun _ => .ok

def rtExec (s : RtState) (c : RtCall) (env : Env RtState) : Obs RtState := exec noEvents (rtProg s c) s env

structure RtRow where
  state : RtState
  call  : RtCall
  wake  : Option RtState
  failAt : Option Nat
  obs   : Obs RtState

def RtRow.matches (r : RtRow) : Bool := rtExec r.state r.call ⟨r.wake, r.failAt⟩ == r.obs

/-! ### agents -/

inductive AgCall where
  | register (es : List Ev) | ready | initError | exitError | shutdownFailed | exited | launchError
deriving DecidableEq, Repr

inductive ExtState where
  | started | registered | ready | running | initError | exitError | shutdownFailed | exited | launchError
deriving DecidableEq, Repr

def validExt : Ev → Err
  | .invoke => .ok | .shutdown => .ok | .bogus => .invalidEvent

def extProg : ExtState → AgCall → Option (List (Instr ExtState))
  | .started, .register es => some [.subscribe es, .set .registered, .flow .initExternalAgentRegistered false]
  | .started, .launchError => some [.set .launchError, .setErrType]
  | .registered, .ready => some [.set .ready, .flow .initAgentReady false, .suspend [.ready] .running]
  | .registered, .initError => some [.set .initError, .setErrType]
  | .registered, .exitError => some [.set .exitError, .setErrType]
  | .ready, .exitError => some [.set .exitError, .setErrType]
  | .running, .ready => some [.set .ready, .flow .invokeAgentReady false, .suspend [.ready] .running]
  | .running, .exitError => some [.set .exitError, .setErrType]
  | .running, .shutdownFailed => some [.set .shutdownFailed]
  | .running, .exited => some [.set .exited]
  | .initError, .initError => some []
  | .exitError, .exitError => some []
  | _, _ => none

def extExec (s : ExtState) (c : AgCall) (env : Env ExtState) : Obs ExtState := exec validExt (extProg s c) s env

structure ExtRow where
  state : ExtState
  call  : AgCall
  wake  : Option ExtState
  obs   : Obs ExtState

def ExtRow.matches (r : ExtRow) : Bool := extExec r.state r.call ⟨r.wake, none⟩ == r.obs

inductive IntState where
  | started | registered | ready | running | initError | exitError
deriving DecidableEq, Repr

def validInt : Ev → Err
  | .invoke => .ok | .shutdown => .shutdownNotSupported | .bogus => .invalidEvent

def intProg : IntState → AgCall → Option (List (Instr IntState))
  | .started, .register es => some [.subscribe es, .set .registered]
  | .registered, .ready => some [.set .ready, .flow .initAgentReady false, .suspend [.ready] .running]
  | .registered, .initError => some [.set .initError, .setErrType]
  | .registered, .exitError => some [.set .exitError, .setErrType]
  | .ready, .exitError => some [.set .exitError, .setErrType]
  | .running, .ready => some [.set .ready, .flow .invokeAgentReady false, .suspend [.ready] .running]
  | .running, .exitError => some [.set .exitError, .setErrType]
  | .initError, .initError => some []
  | .exitError, .exitError => some []
  | _, _ => none

def intExec (s : IntState) (c : AgCall) (env : Env IntState) : Obs IntState := exec validInt (intProg s c) s env

structure IntRow where
  state : IntState
  call  : AgCall
  wake  : Option IntState
  obs   : Obs IntState

def IntRow.matches (r : IntRow) : Bool := intExec r.state r.call ⟨r.wake, none⟩ == r.obs

end Rie.SM
