import Rie.Oracle.Core
/-! Oracle adaptors (line protocol ↔ model) — filled in by the Sanitize work package. -/
namespace Rie.Oracle

def sanitizeModels : List (String × Model) := []

end Rie.Oracle
