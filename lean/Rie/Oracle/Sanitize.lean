import Rie.Oracle.Core
import Rie.Model.ErrType
import Rie.Model.ErrorCause
import Rie.Model.RuntimeRelease
import Rie.Model.SanitizeInst

/-! Oracle adaptors (line protocol ↔ model) for property C20: `errtype`, `errcause`, `release`.
Byte strings travel as lower-case hex, `-` is the empty string. -/
namespace Rie.Oracle.San
open Rie Rie.Oracle

def hexVal (c : Char) : Option Nat :=
  if '0' ≤ c ∧ c ≤ '9' then some (c.toNat - 48)
  else if 'a' ≤ c ∧ c ≤ 'f' then some (c.toNat - 87)
  else if 'A' ≤ c ∧ c ≤ 'F' then some (c.toNat - 55)
  else none

def parseHexAux : List Char → List UInt8 → Option (List UInt8)
  | [], acc => some acc.reverse
  | [_], _ => none
  | a :: b :: rest, acc => do
    let x ← hexVal a
    let y ← hexVal b
    parseHexAux rest (UInt8.ofNat (x * 16 + y) :: acc)

def parseHex (s : String) : Option (List UInt8) :=
  if s == "-" then some [] else parseHexAux s.toList []

def hexDigit (n : Nat) : Char := if n < 10 then Char.ofNat (48 + n) else Char.ofNat (87 + n)

def showHex (b : List UInt8) : String :=
  if b.isEmpty then "-"
  else String.ofList (b.foldr (fun x acc => hexDigit (x.toNat / 16) :: hexDigit (x.toNat % 16) :: acc) [])

/-! ### error type: `op errtype <hex>` → `<hex>` -/

def errTypeModel : Model where
  σ := Unit
  init := fun _ => some ()
  step := fun _ ws =>
    match ws with
    | ["errtype", h] => do
      let s ← parseHex h
      some ((), showHex (ErrType.sanitize s))
    | _ => none

/-! ### runtime release: `op upd <ua> <features>` → `ret=<t|f> rr=<hex>`;
`op create <rr> <features>` → `rr=<hex>`. The state is the stored value. -/

def releaseModel : Model where
  σ := List UInt8
  init := fun _ => some []
  step := fun st ws =>
    match ws with
    | ["upd", ua, hdr] => do
      let ua ← parseHex ua
      let hdr ← parseHex hdr
      let r := Release.update Rie.Gen.Sanitize.maxRuntimeReleaseLength st { ua := ua, hdr := hdr }
      some (r.1, s!"ret={if r.2 then "t" else "f"} rr={showHex r.1}")
    | ["create", rr, hdr] => do
      let rr ← parseHex rr
      let hdr ← parseHex hdr
      some (st, s!"rr={showHex (Release.create Rie.Gen.Sanitize.maxRuntimeReleaseLength rr hdr)}")
    | _ => none

/-! ### error cause.
`op cause en=<0|1> pn=<0|1> ex=<sizes> pa=<sizes> wd=<len>,<e0>,<e1>,<e2> msg=<len>,<e0>,<e1>,<e2>`
carries what the model needs of the parsed document: nil-ness of the two slices, the marshalled
size of every exception and path, and for the two strings their length and the values of the
abstract `esc` at the three points the model can query it: the string itself (`e0`), its crop
to `halfLen` (`e1`), and the crop of that to `escLen` (`e2`) — all measured by the harness with
the real `encoding/json`. Exceptions and paths are represented by their sizes (`E = P = Nat`);
a string of length `n` is represented by `n` copies of a tag byte (1 = message, 2 = working
directory), so the `Bytes` model itself runs: lengths, `take`, `++ "..."` are real, `esc` is the
measured table. `op causebad` (document rejected by `json.Unmarshal`) is always `dropped`.
Observation: `dropped` or `kept total=<size> ex=<n> pa=<n> wd=<len>,<cropped> msg=<len>,<cropped>`. -/

def parseNatList (s : String) : Option (List Nat) :=
  if s == "-" then some [] else (s.splitOn ",").mapM String.toNat?

def parseKV (key : String) (w : String) : Option String :=
  if w.startsWith (key ++ "=") then some ((w.drop (key.length + 1)).toString) else none

structure StrInfo where
  len : Nat
  e0 : Nat
  e1 : Nat
  e2 : Nat

def parseStrInfo (s : String) : Option StrInfo :=
  match parseNatList s with
  | some [l, a, b, c] => some ⟨l, a, b, c⟩
  | _ => none

def StrInfo.esc (k : ErrorCause.Consts) (i : StrInfo) (n : Nat) : Nat :=
  if n = i.len then i.e0
  else if n = ErrorCause.halfLen k then i.e1
  else if n = ErrorCause.escLen k then i.e2
  else 0

def causeEnc (k : ErrorCause.Consts) (msg wd : StrInfo) : ErrorCause.Enc Nat Nat where
  esc := fun b =>
    match b.head? with
    | some 1 => msg.esc k b.length
    | some 2 => wd.esc k b.length
    | _ => 2
  excSize := id
  pathSize := id

def errCauseModel : Model where
  σ := Unit
  init := fun _ => some ()
  step := fun _ ws =>
    match ws with
    | ["causebad"] => some ((), "dropped")
    | ["cause", en, pn, ex, pa, wd, msg] => do
      let en ← parseKV "en" en
      let pn ← parseKV "pn" pn
      let ex ← (parseKV "ex" ex) >>= parseNatList
      let pa ← (parseKV "pa" pa) >>= parseNatList
      let wd ← (parseKV "wd" wd) >>= parseStrInfo
      let msg ← (parseKV "msg" msg) >>= parseStrInfo
      let k := ErrorCause.gen
      let c : ErrorCause.Cause Nat Nat :=
        { exceptions := ex, excNil := en == "1", workingDir := List.replicate wd.len 2,
          paths := pa, pathsNil := pn == "1", message := List.replicate msg.len 1 }
      let enc := causeEnc k msg wd
      match ErrorCause.validated k enc c with
      | none => some ((), "dropped")
      | some o =>
        let b (x : Bool) : String := if x then "1" else "0"
        some ((), s!"kept total={ErrorCause.size k enc o} ex={o.exceptions.length} pa={o.paths.length} " ++
          s!"wd={o.workingDir.length},{b (o.workingDir != c.workingDir)} " ++
          s!"msg={o.message.length},{b (o.message != c.message)}")
    | _ => none

end Rie.Oracle.San

namespace Rie.Oracle

def sanitizeModels : List (String × Model) :=
  [("errtype", San.errTypeModel), ("errcause", San.errCauseModel), ("release", San.releaseModel)]

end Rie.Oracle
