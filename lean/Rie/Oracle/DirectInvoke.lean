import Rie.Oracle.Core
/-! Oracle adaptors (line protocol ↔ model) — filled in by the DirectInvoke work package. -/
namespace Rie.Oracle

def directInvokeModels : List (String × Model) := []

end Rie.Oracle
