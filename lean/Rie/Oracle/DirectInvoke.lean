import Rie.Oracle.Core
import Rie.Model.DirectInvoke
import Rie.Model.Bucket
/-! Oracle adaptors (line protocol ↔ model) for C17: `direcv` (request sequences through
`ReceiveDirectInvoke`), `disend` (`SendDirectInvokeResponse`: bytes + trailer), `bucket` (real
`Bucket` under a virtual tick source), `dishape` (real `BandwidthLimitingWriter` under a virtual
tick source). -/
namespace Rie.Oracle
open Rie Rie.DirectInvoke

/-- value of `key=` among the words -/
def kv (ws : List String) (key : String) : Option String :=
  ws.findSome? fun w =>
    match w.splitOn "=" with
    | [k, v] => if k == key then some v else none
    | _ => none

def hexVal (c : Char) : Option Nat :=
  if '0' ≤ c && c ≤ '9' then some (c.toNat - '0'.toNat)
  else if 'a' ≤ c && c ≤ 'f' then some (c.toNat - 'a'.toNat + 10)
  else none

def hexList : List Char → Option Bytes
  | [] => some []
  | [_] => none
  | a :: b :: rest => do
    let x ← hexVal a
    let y ← hexVal b
    let r ← hexList rest
    some (UInt8.ofNat (x * 16 + y) :: r)

/-- `-` = empty -/
def hexBytes (s : String) : Option Bytes := if s == "-" then some [] else hexList s.toList

def optNat (s : String) : Option (Option Nat) := if s == "-" then some none else s.toNat?.map some

def parseIntS (s : String) : Option Int := s.toInt?

def showMode : Mode → String
  | .buffered => "B" | .streaming => "S"

def parseModeS (s : String) : Option Mode :=
  if s == "B" then some .buffered else if s == "S" then some .streaming else none

def showErr : Err → String
  | .malformedCustomerHeaders => "ErrMalformedCustomerHeaders"
  | .invalidMaxPayloadSize => "ErrInvalidMaxPayloadSize"
  | .invalidInvokeResponseMode => "ErrInvalidInvokeResponseMode"
  | .invalidResponseBandwidthRate => "ErrInvalidResponseBandwidthRate"
  | .invalidResponseBandwidthBurstSize => "ErrInvalidResponseBandwidthBurstSize"
  | .invalidInvokeID => "ErrInvalidInvokeID"
  | .invalidReservationToken => "ErrInvalidReservationToken"
  | .invalidFunctionVersion => "ErrInvalidFunctionVersion"
  | .reservationExpired => "ErrReservationExpired"

def showGlobals (g : Globals) : String := s!"{g.maxSize}/{showMode g.mode}/{g.rate}/{g.burst}"

def parseGlobals (ws : List String) : Option Globals :=
  match ws with
  | [a, b, c, d] => do some { maxSize := ← parseIntS a, mode := ← parseModeS b, rate := ← parseIntS c, burst := ← parseIntS d }
  | _ => none

def recvStep (g : Globals) (ws : List String) : Option (Globals × String) :=
  match ws with
  | "junk" :: rest => do
    let g' ← parseGlobals rest
    some (g', "-")
  | "recv" :: rest => do
    let cust ← kv rest "cust"
    let dl ← kv rest "dl"
    let r : Req := {
      custOk := cust != "bad",
      maxSize := ← (kv rest "max").bind hexBytes, mode := ← (kv rest "mode").bind hexBytes,
      rate := ← (kv rest "rate").bind hexBytes, burst := ← (kv rest "burst").bind hexBytes,
      id := ← (kv rest "id").bind hexBytes, tok := ← (kv rest "tok").bind hexBytes,
      ver := ← (kv rest "ver").bind hexBytes,
      now := if dl == "past" then 1 else 0 }
    let t : Token := {
      id := ← (kv rest "tid").bind hexBytes, tok := ← (kv rest "ttok").bind hexBytes,
      ver := ← (kv rest "tver").bind hexBytes, deadline := 0 }
    let res := receive g r t
    let gs := showGlobals res.1
    match res.2 with
    | .error e => some (res.1, s!"err={showErr e} st=400 g={gs}")
    | .ok p =>
      let sp := sendParams res.1
      let sh := match p.shaping with
        | some (rate, burst) => s!"rate={rate} burst={burst}"
        | none => "rate=- burst=-"
      let bk := match sp.shaping with
        | some (cap, refill) => s!"cap={cap} refill={refill}"
        | none => "cap=- refill=-"
      some (res.1, s!"ok limit={p.limit} mode={showMode p.mode} {sh} {bk} st=200 g={gs}")
  | _ => none

def direcvModel : Model where
  σ := Globals
  init := fun
    | [] => some initGlobals
    | ws => parseGlobals ws
  step := recvStep

/-! send -/

/-- the harness's payload pattern: byte `i` of the payload generated from `seed` -/
def patByte (seed i : Nat) : UInt8 := UInt8.ofNat ((seed + i * 31 + i / 256 * 17) % 256)

def patChunks (seed : Nat) : Nat → List Nat → List Bytes
  | _, [] => []
  | off, c :: cs => ((List.range c).map fun i => patByte seed (off + i)) :: patChunks seed (off + c) cs

def fnvStep (h : UInt64) (b : UInt8) : UInt64 := (h ^^^ b.toUInt64) * 1099511628211
def fnvInit : UInt64 := 14695981039346656037
def fnvBytes (h : UInt64) (bs : List UInt8) : UInt64 := bs.foldl fnvStep h
def fnvStr (h : UInt64) (s : String) : UInt64 := s.toUTF8.foldl fnvStep h

def parseNatList (s : String) : Option (List Nat) :=
  if s == "-" then some [] else (s.splitOn ",").mapM (·.toNat?)

def showTrailer : Trailer → String
  | .complete => "Complete" | .oversized => "Oversized" | .truncated => "Truncated"

def sendStep (p : SendParams) (ws : List String) : Option (SendParams × String) :=
  match ws with
  | "send" :: rest => do
    let seed ← (kv rest "seed").bind (·.toNat?)
    let cs ← (kv rest "chunks").bind parseNatList
    let fail ← kv rest "fail"
    let wt ← kv rest "wt"
    let reset ← (kv rest "reset").bind optNat
    let budget ← (kv rest "budget").bind optNat
    let src : Src := { chunks := patChunks seed 0 cs, fail := fail == "1", writerTo := wt == "1" }
    -- `stall=1`: the body stalls at the read where the reset arrives (see `Src.stallAt`)
    let stalled := (kv rest "stall") == some "1" && reset.isSome && p.mode == .streaming
    -- a read number beyond the EOF read never happens: then neither the stall nor the reset it brings
    let nData := (src.chunks.flatMap fun c => chunks c copyBuf).length
    let src := if stalled && reset.getD 0 ≤ nData then src.stallAt (reset.getD 0) else src
    let o := send p src { resetAt := if stalled then none else reset, budget := budget }
    let n := o.forwarded.length
    let h := o.writes.foldl fnvBytes fnvInit
    let wh := o.writes.foldl (fun h w => fnvStr h (toString w.length ++ ",")) fnvInit
    let rc := match o.trailer with
      | .complete => "none"
      | .truncated => "truncated"
      | .oversized => s!"toolarge:{n}:{p.maxSize}"
    some (p, s!"n={n} h={h.toNat} nw={o.writes.length} wh={wh.toNat} eor={showTrailer o.trailer} rc={rc}")
  | _ => none

def disendModel : Model where
  σ := SendParams
  init := fun ws => do
    let lim ← (kv ws "limit").bind parseIntS
    let m ← (kv ws "mode").bind parseModeS
    let cap ← (kv ws "cap").bind optNat
    let refill ← (kv ws "refill").bind optNat
    let sh := match cap, refill with
      | some c, some r => some (c, r)
      | _, _ => none
    some { mode := m, maxSize := lim, shaping := sh }
  step := sendStep

/-! bucket -/

def bucketModel : Model where
  σ := Bucket.Bucket
  init := fun
    | [c, t, r] => do some { capacity := ← c.toNat?, tokens := ← t.toNat?, refill := ← r.toNat? }
    | _ => none
  step := fun b ws =>
    match ws with
    | ["tick"] => let b' := Bucket.produce b; some (b', s!"tokens={b'.tokens}")
    | ["consume", n] => do
      let r := Bucket.consume b (← n.toNat?)
      some (r.1, s!"ok={if r.2 then 1 else 0} tokens={r.1.tokens}")
    | _ => none

/-- per-buffer waits of a chunked write -/
def admitList : Bucket.Bucket → List Nat → Option (List Nat × Bucket.Bucket)
  | b, [] => some ([], b)
  | b, n :: ns => do
    let (k, b') ← Bucket.admitOne b n
    let (ks, b'') ← admitList b' ns
    some (k :: ks, b'')

def dishapeModel : Model where
  σ := Bucket.Bucket
  init := fun
    | [rate, burst] => do
      let r ← rate.toNat?
      let b ← burst.toNat?
      some { capacity := b, tokens := b, refill := Bucket.refillOf r Gen.DirectConsts.defaultRefillIntervalMs }
    | _ => none
  step := fun b ws =>
    match ws with
    | ["params"] => some (b, s!"cap={b.capacity} refill={b.refill} tokens={b.tokens}")
    | ["idle", k] => do
      let b' := Bucket.produceN (← k.toNat?) b
      some (b', s!"tokens={b'.tokens}")
    | ["write", n] => do
      let n ← n.toNat?
      -- `BandwidthLimitingWriter.Write`: larger than the bucket → capacity-sized pieces
      let sizes := (chunks (List.replicate n ()) b.capacity).map List.length
      let (ks, b') ← admitList b sizes
      let ticks := ks.foldl (· + ·) 0
      some (b', s!"ret={n} sizes={",".intercalate (sizes.map toString)} waits={",".intercalate (ks.map toString)} ticks={ticks} tokens={b'.tokens}")
    | _ => none

def directInvokeModels : List (String × Model) :=
  [("direcv", direcvModel), ("disend", disendModel), ("bucket", bucketModel), ("dishape", dishapeModel)]

end Rie.Oracle
