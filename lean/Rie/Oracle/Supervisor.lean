import Rie.Oracle.Core
/-! Oracle adaptors (line protocol ↔ model) — filled in by the Supervisor work package. -/
namespace Rie.Oracle

def supervisorModels : List (String × Model) := []

end Rie.Oracle
