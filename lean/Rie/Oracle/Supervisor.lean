import Rie.Oracle.Core
import Rie.Model.Supervisor
/-! Oracle adaptor (line protocol ↔ `Rie.Supervisor`) for the `supdrv` harness (C19).

```
init
op exec <name> ok|fail            obs ret=ok pid=<model pid> | ret=starterr
op exit <pid> code:<n>|sig:<n>    obs ev=<name>:<status> | ev=-        (the event the harness received)
op terminate <name>               obs ret=ok | ret=nosuchentity
op kill <name> past|ahead <0|1>   obs ret=<class> ev=<name>:sig:9 | ev=-   (<0|1> = dies in time)
op foreign <call> <name>          obs ret=ok                             (domain ≠ "runtime")
op snap                           obs live=<k> <name>=[<status>,…] …     (names ascending, statuses sorted)
```
Names and pids are case-local numbers. Further words after the ones shown are annotations for the
harness's replay (process behaviour, how the exit was brought about, the deadline used) and are ignored. -/
namespace Rie.Oracle
open Rie

def showStatus : Supervisor.Status → String
  | .code n => s!"code:{n}"
  | .sig n => s!"sig:{n}"

def parseStatus (w : String) : Option Supervisor.Status :=
  match w.splitOn ":" with
  | ["code", n] => n.toNat?.map .code
  | ["sig", n] => n.toNat?.map .sig
  | _ => none

def showSupRet : Supervisor.Ret → String
  | .unit => "-" | .ok => "ok" | .startErr => "starterr" | .noSuchEntity => "nosuchentity"
  | .badDeadline => "baddeadline" | .timedOut => "timedout"

def parseBool01 (w : String) : Option Bool :=
  if w == "1" then some true else if w == "0" then some false else none

def parseSupOp : List String → Option Supervisor.Op
  | "exec" :: n :: "ok" :: _ => n.toNat?.map (.exec · true)
  | "exec" :: n :: "fail" :: _ => n.toNat?.map (.exec · false)
  | "exit" :: p :: st :: _ => do some (.exit (← p.toNat?) (← parseStatus st))
  | "terminate" :: n :: _ => n.toNat?.map .terminate
  | "kill" :: n :: "past" :: d :: _ => do some (.kill (← n.toNat?) true (← parseBool01 d))
  | "kill" :: n :: "ahead" :: d :: _ => do some (.kill (← n.toNat?) false (← parseBool01 d))
  | "foreign" :: _ :: _ :: _ => some .foreign
  | _ => none

def insertSorted (x : String) : List String → List String
  | [] => [x]
  | y :: ys => if x < y then x :: y :: ys else y :: insertSorted x ys

def sortStrings (l : List String) : List String := l.foldr insertSorted []

def insertNat (x : Nat) : List Nat → List Nat
  | [] => [x]
  | y :: ys => if x < y then x :: y :: ys else if x == y then y :: ys else y :: insertNat x ys

/-- the event that the last step appended (if any) -/
def newEvent (before after : Supervisor.Sup) : String :=
  if after.events.length > before.events.length then
    match after.events.getLast? with
    | some e => s!"{e.name}:{showStatus e.status}"
    | none => "-"
  else "-"

def showSnap (s : Supervisor.Sup) : String :=
  let live := s.procs.countP (fun p => !p.isExited)
  let names := (s.events.map (·.name)).foldr insertNat []
  let parts := names.map fun n =>
    let sts := sortStrings ((s.events.filter (·.name == n)).map (fun e => showStatus e.status))
    s!"{n}=[{",".intercalate sts}]"
  " ".intercalate (s!"live={live}" :: parts)

def supervisorModel : Model where
  σ := Supervisor.Sup
  init := fun _ => some Supervisor.init
  step := fun s ws =>
    match ws with
    | ["snap"] => some (s, showSnap s)
    | _ => do
      let o ← parseSupOp ws
      let r := Supervisor.step s o
      let obs := match o with
        | .exec _ true => s!"ret={showSupRet r.2} pid={s.procs.length}"
        | .exec _ false => s!"ret={showSupRet r.2}"
        | .exit _ _ => s!"ev={newEvent s r.1}"
        | .kill _ _ _ => s!"ret={showSupRet r.2} ev={newEvent s r.1}"
        | _ => s!"ret={showSupRet r.2}"
      some (r.1, obs)

def supervisorModels : List (String × Model) := [("supervisor", supervisorModel)]

end Rie.Oracle
