import Rie.Oracle.Core
import Rie.Model.Sys.Run

/-! Oracle adaptor for the system model: parses the stackdrv op lines. After the op itself any
subset of the armed timers may have fired (real time passes between ops), in any order. -/
namespace Rie.Oracle
open Rie Rie.Sys Rie.SM

def skv (ws : List String) (k : String) : Option String :=
  (ws.find? (·.startsWith (k ++ "="))).map fun w => (w.drop (k.length + 1)).toString

def splitComma (s : String) : List String := (s.splitOn ",").filter (· ≠ "")

def parseEvs (spec : String) : List Ev :=
  spec.toList.filterMap fun c => if c == 'I' then some .invoke else if c == 'S' then some .shutdown else if c == 'B' then some .bogus else none

structure OState where
  s : Sys.State
  lastRt : Option Nat := none     -- harness view: id most recently delivered to the runtime (model numbering)
  /-- the harness numbers request ids in order of first appearance in anything it logs -/
  aliases : List (Nat × Nat) := []   -- model invocation number ↦ harness alias number

def idRef (o : OState) (r : String) : Option Nat :=
  if r == "cur" then o.lastRt
  else if r.startsWith "id#" then
    match (r.drop 3).toString.toNat? with
    | some n => (o.aliases.find? (·.2 == n)).map (·.1)
    | none => none
  else none

/-- all `id#<k>` mentions in a text, in order -/
def idMentions (t : String) : List Nat :=
  ((t.splitOn "id#").drop 1).filterMap fun seg =>
    (String.ofList (seg.toList.takeWhile Char.isDigit)).toNat?

def assignAliases (al : List (Nat × Nat)) (out : List String) : List (Nat × Nat) :=
  out.foldl (fun al e => (idMentions e).foldl (fun al k =>
    if al.any (·.1 == k) then al else al ++ [(k, al.length + 1)]) al) al

def rewriteIds (al : List (Nat × Nat)) (t : String) : String :=
  match t.splitOn "id#" with
  | [] => t
  | first :: rest =>
    first ++ String.join (rest.map fun seg =>
      let ds := String.ofList (seg.toList.takeWhile Char.isDigit)
      let tail := (seg.drop ds.length).toString
      match ds.toNat? with
      | some k => "id#" ++ toString ((al.lookup k).getD 0) ++ tail
      | none => "id#" ++ seg)

def parseSysOp (o : OState) : List String → Option Sys.Op
  | "invoke" :: c :: size :: _ :: rest => do
    some (.invoke (← c.toNat?) (← size.toNat?) ((skv rest "h").getD ""))
  | "beh" :: base :: rest => some (.beh base ((skv rest "term").getD "ignore"))
  | ["execfail", base, onoff] => some (.execFail base (onoff == "on"))
  | k :: name :: "register" :: evs :: rest =>
    if k == "ext" || k == "int" then
      let v := if rest.contains "noname" then "noname" else if rest.contains "badjson" then "badjson"
               else if rest.contains "cfgkeys" then "cfgkeys" else ""
      some (.register name (parseEvs evs) v)
    else none
  | [_, name, "next"] => some (.agNext name "")
  | [_, name, "nextnoid"] => some (.agNext name "noid")
  | [_, name, "nextbadid"] => some (.agNext name "badid")
  | [_, name, "nextunknownid"] => some (.agNext name "unknownid")
  | [_, name, "nextoldid"] => some (.agNext name "oldid")
  | [_, name, "initerror", t] => some (.agReport name "initerror" t "")
  | [_, name, "exiterror", t] => some (.agReport name "exiterror" t "")
  | [_, name, "initerror", t, mode] => some (.agReport name "initerror" t mode)
  | [_, name, "exiterror", t, mode] => some (.agReport name "exiterror" t mode)
  | ["rt", "next"] => some .rtNext
  | ["rt", "next", _via] => some .rtNext       -- the same call made by another local process (`via=<ext>`)
  | "rt" :: "response" :: idr :: size :: _ :: rest => do
    let bad := (rest.any fun w => w.startsWith "mode=" && w != "mode=streaming")
    some (.rtResponse (idRef o idr) (← size.toNat?) ((skv rest "h").getD "") bad)
  | "rt" :: "error" :: idr :: t :: _ => some (.rtError (idRef o idr) t)
  | ["rt", "initerror", t] => some (.rtInitError t)
  | ["rt", "restorenext"] => some .rtRestoreNext
  | ["rt", "raw", m, p] => some (.rtRaw m p)
  | ["rt", "restoreerror", t] => some (.rtRestoreError t)
  | ["rt", "creds", tok] => some (.rtCreds tok)
  | ["init"] => some .init
  | ["restore", _] => some (.restore "AKIDRESTORED")
  | ["restore", _, key] => some (.restore key)
  | ["exit", base, st] =>
    if st.startsWith "sig" then some (.exit base st false) else some (.exit base s!"code{st}" (st == "0"))
  | ["sleep", _] => some .nop
  | "hook" :: _ => some .nop
  | ["release", _] => some .nop     -- a held Exec call returns: the launch loop is one step of the model
  | ["reset", reason] => some (.reset reason)
  | ["shutdown"] => some .shutdown
  | _ => none

/-- the actor and canonical call name of an API op (none for platform ops):
    (process that makes the call, actor under which the answer is reported, call) -/
def opActor : List String → Option (String × String × String)
  | "rt" :: "raw" :: m :: p :: _ => some ("rt", "rt", s!"raw:{m}:{p}")
  | "rt" :: c :: rest =>
    -- `via=<ext>`: the Runtime API called by another local process
    match rest.find? (·.startsWith "via=") with
    | some v => some ((v.drop 4).toString, "rt", c)
    | none => some ("rt", "rt", c)
  | k :: name :: c :: _ =>
    if k == "ext" || k == "int" then some (name, name, if c.startsWith "next" then "next" else c) else none
  | _ => none

/-- two states the harness cannot tell apart later: equal up to the order of this step's output -/
def sameUpToOutOrder (a b : Sys.State) : Bool :=
  a.out.length == b.out.length && { a with out := [] } == { b with out := [] } &&
  (a.outs.toArray.qsort (· < ·)) == (b.outs.toArray.qsort (· < ·))

def addState (l : List Sys.State) (s : Sys.State) : List Sys.State :=
  if l.any (sameUpToOutOrder s) then l else l ++ [s]

/-- the moves the scheduler may make next: one per digit of `progress`, without repetitions -/
def movesOf (s : Sys.State) : List Sys.State :=
  (List.range 12).foldl (fun acc d => match progress d s with | some s' => addState acc s' | none => acc) []

/-- every quiescent state some sequence of scheduler choices leads to (each is `settle v _ s` for the `v`
    whose base-12 digits are those choices), found depth first with at most `cap` intermediate states;
    the twelve fixed policies are always among them -/
def settleSearch : Nat → List Sys.State → List Sys.State → List Sys.State → List Sys.State
  | 0, _, _, done => done
  | _, [], _, done => done
  | fuel + 1, s :: work, seen, done =>
    let succ := movesOf s
    if succ.isEmpty then settleSearch fuel work seen (addState done s)
    else
      let new := succ.filter fun x => !seen.any (sameUpToOutOrder x)
      settleSearch fuel (new ++ work) (seen ++ new) done

def settleAll (s : Sys.State) : List Sys.State :=
  let fixed := (List.range 12).foldl (fun acc d => addState acc (settle d 400 s)) []
  -- with many agents the number of move orders explodes (and comparing states is dear): search a little, rely on the policies
  let cap := if s.agents.length > 4 then 60 else 1500
  (settleSearch cap [s] [s] []).foldl addState fixed

/-- all states reachable by letting armed timers fire (each followed by settling), depth-bounded -/
def timerClosure : Nat → List Sys.State → List Sys.State
  | 0, acc => acc
  | n + 1, acc =>
    let more := acc.foldl (fun out s =>
      (s.timers.flatMap fun t => settleAll (applyOp s (.timer t))).foldl addState out) []
    if more.isEmpty then acc else acc ++ timerClosure n more

/-- keep one representative per (observation-relevant) state: compare by a printed digest -/
def digest (s : Sys.State) : String :=
  s!"{repr s.orch}|{repr s.queue}|{repr s.timers}|{s.rtDeadlineFired}{s.agDeadlineFired}{s.graceFired}|{repr s.flights}|{repr s.resv}|{repr s.procs}|{repr s.agents}|{repr s.rt}|{s.rtFlag}|{repr s.renderer}|{s.fatal}|{repr s.initChan}|{s.doneChan}|{s.cached}|{s.gen}|{s.initDone}|{s.cancelDone}|{repr s.initFlow}|{repr s.invFlow}|{s.crashed}|{repr s.pending}|{s.regOn}|{s.killQueue}|{s.restoreWaiting}|{s.credKey}"

def dedupStates (l : List OState) : List OState :=
  l.foldl (fun acc o => if acc.any (fun p => digest p.s == digest o.s && p.lastRt == o.lastRt && p.aliases == o.aliases) then acc else acc ++ [o]) []

def updLastRt (o : OState) (s : Sys.State) : OState :=
  -- the harness remembers the id of the latest `rt.next=200,id#k,…` answer
  let hit := s.outs.filterMap fun e =>
    if e.startsWith "rt.next=200,id#" then
      (((e.drop 15).toString.splitOn ",").head?.bind String.toNat?)
    else none
  { s := s, lastRt := (match hit.getLast? with | some k => some k | none => o.lastRt),
    aliases := assignAliases o.aliases s.outs }

def obsWith (al : List (Nat × Nat)) (s : Sys.State) : String :=
  let xs := ((s.outs.map (rewriteIds al)).toArray.qsort (· < ·)).toList
  " ; ".intercalate xs ++ " | blocked=" ++ blockedStr s

def sysModel : NModel where
  σ := OState
  init := fun ws =>
    some { s := { extFiles := splitComma ((skv ws "exts").getD ""),
                  timeoutMs := ((skv ws "timeout").bind String.toNat?).getD 1000,
                  snapshot := (skv ws "snapshot") == some "1" } }
  step := fun o ws =>
    match parseSysOp o ws with
    | none => []
    | some op =>
      -- timers may fire before the op takes effect as well as after it
      let actor := opActor ws
      let pre := timerClosure 3 [{ o.s with out := [] }]
      let mid := pre.flatMap fun s =>
        -- the calling process may have been killed by a timer-driven reset just before the call
        match actor with
        | some (pa, a, c) =>
          if (procOf s pa).isNone then [s.emit s!"{a}.{c}=aborted"] else settleAll (applyOp s op)
        | none => settleAll (applyOp s op)
      let all := timerClosure 3 (mid.foldl addState [])
      -- … or while the request was in flight: the server processed it, the client saw an abort
      let all := all ++ (match actor with
        | some (pa, a, c) => all.filterMap fun s =>
            if (procOf s pa).isNone && s.outs.any (fun e => e.startsWith s!"{a}.{c}=" && !e.endsWith "=aborted") then
              some { s with out := s.out.map fun o => match o with
                | .line e => if e.startsWith s!"{a}.{c}=" then .line s!"{a}.{c}=aborted" else .line e
                | o => o }
            else none
        | none => [])
      all.map fun s => let o' := updLastRt o s; (o', obsWith o'.aliases s)
  dedup := dedupStates

end Rie.Oracle
