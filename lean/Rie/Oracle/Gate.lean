import Rie.Oracle.Core
import Rie.Model.Gate
import Rie.Model.Thread
import Rie.Model.Flow

/-! Oracle adaptors for the L0 models. The implementation is observed at quiescent points, so
after each op every woken waiter is resumed (the order is irrelevant: `resume` does not change
the gate). -/
namespace Rie.Oracle
open Rie

def showRes : Gate.Res → String
  | .ok => "ok" | .canceled => "canceled" | .err e => s!"err{e}"

def showW : Gate.W → String
  | .idle => "idle" | .parked => "parked" | .woken => "woken" | .done r => s!"done:{showRes r}"

def showRet : Gate.Ret → String
  | .unit => "-" | .ok => "ok" | .integrity => "integrity"

def settle (s : Gate.Sys) : Gate.Sys :=
  (List.range s.ws.length).foldl (fun s i => (Gate.step s (.resume i)).1) s

def parseErr (w : String) : Option (Option Nat) :=
  if w == "nil" then some none else w.toNat?.map some

def parseGateOp : List String → Option Gate.Op
  | ["setcount", n] => n.toNat?.map .setCount
  | ["reset"] => some .reset
  | ["walk"] => some .walk
  | ["cancel", e] => (parseErr e).map .cancel
  | ["clear"] => some .clear
  | ["register", n] => n.toNat?.map .register
  | ["enter", i] => i.toNat?.map .enter
  | ["collect", i] => i.toNat?.map .collect
  | _ => none

def showGate (s : Gate.Sys) : String := ",".intercalate (s.ws.map showW)

def gateModel : Model where
  σ := Gate.Sys
  init := fun
    | [c, n] => do some (Gate.init (← c.toNat?) (← n.toNat?))
    | _ => none
  step := fun s ws => do
    let o ← parseGateOp ws
    let r := Gate.step s o
    let s' := settle r.1
    some (s', s!"ret={showRet r.2} ws={showGate s'}")

/-! flows: `op <call> [arg]` expands to per-gate ops; `op enter <gate> <i>` / `collect <gate> <i>` -/

def settleFlow (f : Flow.Flow) : Flow.Flow := { gates := f.gates.map settle }

def showFlow (f : Flow.Flow) : String := " ".intercalate (f.gates.map showGate)

def runFOps (f : Flow.Flow) (ops : List Flow.FOp) : Flow.Flow × String :=
  ops.foldl (fun (acc : Flow.Flow × String) x =>
    let r := Flow.step acc.1 x
    (r.1, if acc.2 == "" then showRet r.2 else acc.2 ++ "," ++ showRet r.2)) (f, "")

def parseInitCall : List String → Option Flow.InitCall
  | ["setExternalAgentsRegisterCount", n] => n.toNat?.map .setExternalAgentsRegisterCount
  | ["setAgentsReadyCount", n] => n.toNat?.map .setAgentsReadyCount
  | ["externalAgentRegistered"] => some .externalAgentRegistered
  | ["runtimeReady"] => some .runtimeReady
  | ["agentReady"] => some .agentReady
  | ["runtimeRestoreReady"] => some .runtimeRestoreReady
  | ["cancelWithError", e] => (parseErr e).map .cancelWithError
  | ["clear"] => some .clear
  | ["awaitRuntimeReadyExpired"] => some .awaitRuntimeReadyExpired
  | _ => none

def parseInvokeCall : List String → Option Flow.InvokeCall
  | ["initializeBarriers"] => some .initializeBarriers
  | ["setAgentsReadyCount", n] => n.toNat?.map .setAgentsReadyCount
  | ["runtimeResponse"] => some .runtimeResponse
  | ["runtimeReady"] => some .runtimeReady
  | ["agentReady"] => some .agentReady
  | ["cancelWithError", e] => (parseErr e).map .cancelWithError
  | ["clear"] => some .clear
  | _ => none

def flowStep (expand : List String → Option (List Flow.FOp)) (f : Flow.Flow) (ws : List String) :
    Option (Flow.Flow × String) :=
  match ws with
  | ["enter", k, i] => do
    let r := runFOps f [⟨← k.toNat?, .enter (← i.toNat?)⟩]
    let f' := settleFlow r.1
    some (f', s!"ret=- ws={showFlow f'}")
  | ["collect", k, i] => do
    let r := runFOps f [⟨← k.toNat?, .collect (← i.toNat?)⟩]
    let f' := settleFlow r.1
    some (f', s!"ret=- ws={showFlow f'}")
  | _ => do
    let ops ← expand ws
    let r := runFOps f ops
    let f' := settleFlow r.1
    -- the Go flow methods return the (single) gate's error or nothing
    let ret := match ops with
      | [_] => r.2
      | _ => if ws == ["awaitRuntimeReadyExpired"] then s!"err{Flow.errRestoreHookTimeout}" else "-"   -- the timeout error is returned
    some (f', s!"ret={ret} ws={showFlow f'}")

def initFlowModel : Model where
  σ := Flow.Flow
  init := fun
    | [n] => do some (Flow.initFlow (← n.toNat?))
    | _ => none
  step := flowStep (fun ws => (parseInitCall ws).map Flow.InitCall.expand)

def invokeFlowModel : Model where
  σ := Flow.Flow
  init := fun
    | [n] => do some (Flow.invokeFlow (← n.toNat?))
    | _ => none
  step := flowStep (fun ws => (parseInvokeCall ws).map Flow.InvokeCall.expand)

/-! managed thread -/

def showTW : Thread.W → String
  | .idle => "idle" | .parked => "parked" | .woken => "woken" | .done => "done"

def settleThread (s : Thread.Sys) : Thread.Sys :=
  (List.range s.ws.length).foldl (fun s i => Thread.step s (.resume i)) s

def threadModel : Model where
  σ := Thread.Sys
  init := fun
    | [n] => do some (Thread.init (← n.toNat?))
    | _ => none
  step := fun s ws => do
    let o ← match ws with
      | ["release"] => some (Thread.Op.release 0)
      -- waiter identity is not compared (Signal's choice): any idle / any returned waiter
      | ["enter", _] => (s.ws.findIdx? (· == .idle)).map .enter
      | ["collect", _] => (s.ws.findIdx? (· == .done)).map .collect
      | _ => none
    let s' := settleThread (Thread.step s o)
    -- which parked waiter `Signal` wakes is not compared: only the multiset of states
    let cnt (w : Thread.W) := s'.ws.countP (· == w)
    some (s', s!"idle={cnt .idle} parked={cnt .parked} done={cnt .done}")

end Rie.Oracle
