/-
Generic line-protocol driver for the correspondence checks.

Input (stdin), produced by the Go harness from the REAL implementation:
  case <id>            start of a case
  init <args…>         model-specific initial configuration
  op <args…>           one operation
  obs <text>           what the implementation showed after that operation (canonicalised)
The driver replays the ops on the model and compares the model's observation with `obs`.
Output: one `MISMATCH …` line per case that disagrees (first disagreement only) and a
final `SUMMARY cases=… steps=… mismatches=…` line.
-/
namespace Rie.Oracle

structure Model where
  σ : Type
  init : List String → Option σ
  /-- `none` = the op line is not understood / not applicable (reported as a mismatch) -/
  step : σ → List String → Option (σ × String)

structure Drv (σ : Type) where
  caseId   : String := ""
  st       : Option σ := none
  expected : Option String := none
  lastOp   : String := ""
  stepNo   : Nat := 0
  failed   : Bool := false
  cases    : Nat := 0
  steps    : Nat := 0
  mism     : Nat := 0

def words (s : String) : List String := (s.splitOn " ").filter (· ≠ "")

def dropPrefix (line : String) (n : Nat) : String := (line.drop n).toString

partial def loop (m : Model) (h : IO.FS.Stream) (d : Drv m.σ) : IO (Drv m.σ) := do
  let raw ← h.getLine
  if raw.isEmpty then return d
  let line := (raw.dropEndWhile (fun c => c == '\n' || c == '\r')).toString
  if line.startsWith "case " then
    loop m h { d with caseId := dropPrefix line 5, st := none, expected := none, stepNo := 0,
                      failed := false, cases := d.cases + 1 }
  else if d.failed then loop m h d
  else if line.startsWith "init " || line == "init" then
    match m.init (words (dropPrefix line 4)) with
    | some s => loop m h { d with st := some s }
    | none =>
      IO.println s!"MISMATCH case={d.caseId} step=0 op=[{line}] model=[bad-init] impl=[]"
      loop m h { d with failed := true, mism := d.mism + 1 }
  else if line.startsWith "op " then
    match d.st with
    | none =>
      IO.println s!"MISMATCH case={d.caseId} step={d.stepNo} op=[{line}] model=[no-init] impl=[]"
      loop m h { d with failed := true, mism := d.mism + 1 }
    | some s =>
      match m.step s (words (dropPrefix line 3)) with
      | some (s', o) =>
        loop m h { d with st := some s', expected := some o, lastOp := line, stepNo := d.stepNo + 1,
                          steps := d.steps + 1 }
      | none =>
        IO.println s!"MISMATCH case={d.caseId} step={d.stepNo + 1} op=[{line}] model=[bad-op] impl=[]"
        loop m h { d with failed := true, mism := d.mism + 1 }
  else if line.startsWith "obs " || line == "obs" then
    let got := dropPrefix line 4
    match d.expected with
    | some e =>
      if e == got then loop m h { d with expected := none }
      else
        IO.println s!"MISMATCH case={d.caseId} step={d.stepNo} op=[{d.lastOp}] model=[{e}] impl=[{got}]"
        loop m h { d with failed := true, mism := d.mism + 1 }
    | none => loop m h d
  else loop m h d

def runModel (m : Model) : IO UInt32 := do
  let h ← IO.getStdin
  let d ← loop m h {}
  IO.println s!"SUMMARY cases={d.cases} steps={d.steps} mismatches={d.mism}"
  return 0


/-! ### nondeterministic models (timers may fire at any time)

`step` returns every (state, observation) the model allows for the op; the driver keeps the set
of states consistent with what the implementation showed. A case disagrees when the set becomes
empty. -/

structure NModel where
  σ : Type
  init : List String → Option σ
  step : σ → List String → List (σ × String)
  /-- used to keep the candidate set small -/
  dedup : List σ → List σ

structure NDrv (σ : Type) where
  caseId   : String := ""
  cands    : List σ := []
  expected : Option (List (σ × String)) := none
  lastOp   : String := ""
  stepNo   : Nat := 0
  failed   : Bool := false
  cases    : Nat := 0
  steps    : Nat := 0
  mism     : Nat := 0
  maxCands : Nat := 0

partial def nloop (m : NModel) (h : IO.FS.Stream) (d : NDrv m.σ) : IO (NDrv m.σ) := do
  let raw ← h.getLine
  if raw.isEmpty then return d
  let line := (raw.dropEndWhile (fun c => c == '\n' || c == '\r')).toString
  if line.startsWith "case " then
    nloop m h { d with caseId := dropPrefix line 5, cands := [], expected := none, stepNo := 0,
                       failed := false, cases := d.cases + 1 }
  else if d.failed then nloop m h d
  else if line.startsWith "init " || line == "init" then
    match m.init (words (dropPrefix line 4)) with
    | some s => nloop m h { d with cands := [s] }
    | none =>
      IO.println s!"MISMATCH case={d.caseId} step=0 op=[{line}] model=[bad-init] impl=[]"
      nloop m h { d with failed := true, mism := d.mism + 1 }
  else if line.startsWith "op " then
    let ws := words (dropPrefix line 3)
    let nexts := d.cands.foldl (fun acc s => acc ++ m.step s ws) []
    if nexts.isEmpty then
      IO.println s!"MISMATCH case={d.caseId} step={d.stepNo + 1} op=[{line}] model=[bad-op] impl=[]"
      nloop m h { d with failed := true, mism := d.mism + 1 }
    else
      nloop m h { d with expected := some nexts, lastOp := line, stepNo := d.stepNo + 1, steps := d.steps + 1 }
  else if line.startsWith "obs " || line == "obs" then
    let got := dropPrefix line 4
    match d.expected with
    | some nexts =>
      let ok := m.dedup ((nexts.filter (·.2 == got)).map (·.1))
      if ok.isEmpty then
        let shown := match nexts with | x :: _ => x.2 | [] => ""
        IO.println s!"MISMATCH case={d.caseId} step={d.stepNo} op=[{d.lastOp}] model=[{shown}] impl=[{got}] alternatives={nexts.length}"
        if (← IO.getEnv "ORACLE_DEBUG").isSome then
          let distinct := nexts.foldl (fun (acc : List String) x => if acc.contains x.2 then acc else acc ++ [x.2]) []
          for a in distinct do IO.println s!"  ALT [{a}]"
        nloop m h { d with failed := true, mism := d.mism + 1 }
      else nloop m h { d with cands := ok, expected := none, maxCands := max d.maxCands ok.length }
    | none => nloop m h d
  else nloop m h d

def runNModel (m : NModel) : IO UInt32 := do
  let h ← IO.getStdin
  let d ← nloop m h {}
  IO.println s!"SUMMARY cases={d.cases} steps={d.steps} mismatches={d.mism} maxcands={d.maxCands}"
  return 0

end Rie.Oracle
