import Rie.Oracle.Core
import Rie.Model.Env

/-! Oracle adaptors for the `Env` model (property C16).

Protocol encoding: a byte string is the word `x<hex>`, a map is the word
`m<hexk>:<hexv>,<hexk>:<hexv>,…` (`m` alone = empty map). A byte `b` becomes the character with
code point `b` (see `Rie.Model.Env`). Maps are printed one entry per key, sorted by key. -/
namespace Rie.Oracle.EnvAd
open Rie Rie.Env Rie.Oracle

def hexVal (c : Char) : Option Nat :=
  if '0' ≤ c ∧ c ≤ '9' then some (c.toNat - '0'.toNat)
  else if 'a' ≤ c ∧ c ≤ 'f' then some (c.toNat - 'a'.toNat + 10)
  else if 'A' ≤ c ∧ c ≤ 'F' then some (c.toNat - 'A'.toNat + 10)
  else none

def unhexChars : List Char → Option (List Char)
  | [] => some []
  | a :: b :: r => do
    let x ← hexVal a
    let y ← hexVal b
    let rest ← unhexChars r
    some (Char.ofNat (16 * x + y) :: rest)
  | [_] => none

def unhexRaw (s : String) : Option String := (unhexChars s.toList).map String.ofList

/-- `x<hex>` -/
def unhx (w : String) : Option String :=
  match w.toList with
  | 'x' :: r => (unhexChars r).map String.ofList
  | _ => none

def hexDigit (n : Nat) : Char :=
  if n < 10 then Char.ofNat ('0'.toNat + n) else Char.ofNat ('a'.toNat + (n - 10))

def hexOf (s : String) : String :=
  String.ofList (s.toList.flatMap fun c =>
    if c.toNat < 256 then [hexDigit (c.toNat / 16), hexDigit (c.toNat % 16)] else ['?', '?'])

/-- `m<hexk>:<hexv>,…` -/
def unmp (w : String) : Option Layer :=
  match w.toList with
  | 'm' :: r =>
    if r.isEmpty then some []
    else (String.ofList r |>.splitOn ",").mapM fun e =>
      match e.splitOn ":" with
      | [k, v] => do some (← unhexRaw k, ← unhexRaw v)
      | _ => none
  | _ => none

def sortByKey (m : Layer) : Layer := m.mergeSort fun a b => !(b.1 < a.1)

def showMap (m : Layer) : String :=
  ",".intercalate ((sortByKey (dedup m)).map fun p => hexOf p.1 ++ ":" ++ hexOf p.2)

def parseIntWord (w : String) : Option Int :=
  match w.toList with
  | '-' :: r => (String.ofList r).toNat?.map fun n => -(n : Int)
  | _ => w.toNat?.map fun n => (n : Int)

def parseEnvOp : List String → Option Op
  | ["api", a] => do some (.storeRuntimeAPI (← unhx a))
  | ["sethandler", a] => do some (.setHandler (← unhx a))
  | ["execenv", a] => do some (.setExecutionEnv (← unhx a))
  | ["taskroot", a] => do some (.setTaskRoot (← unhx a))
  | ["runtimedir", a] => do some (.setRuntimeDir (← unhx a))
  | ["init", m, h, ak, sk, st, fn, fv] => do
    some (.storeFromInit (← unmp m) (← unhx h) (← unhx ak) (← unhx sk) (← unhx st) (← unhx fn) (← unhx fv))
  | ["initcaching", host, port, m, h, fn, fv, tok] => do
    some (.storeFromInitCaching (← unhx host) (← parseIntWord port) (← unmp m) (← unhx h) (← unhx fn)
      (← unhx fv) (← unhx tok))
  | ["cli", m] => do some (.storeFromCLI (← unmp m))
  | _ => none

def showEnvironment (e : Environment) : String :=
  let r := if e.ready then "1" else "0"
  let rt := if e.ready then showMap (runtimeEnv e) else "-"
  let ag := if e.ready then showMap (agentEnv e) else "-"
  s!"ready={r} cu={showMap e.customer} ra={showMap e.rapid} pl={showMap e.platform} ru={showMap e.runtime} un={showMap e.platformUnreserved} cr={showMap e.credentials} rt={rt} ag={ag}"

/-- `init <process-env map>`; `op <mutator> …` → all six layers and, once both flags are set, the
    maps of `RuntimeExecEnv()` and `AgentExecEnv()`; `op custenv` → `CustomerEnvironmentVariables()`
    of the process environment. -/
def envModel : Model where
  σ := Layer × Environment
  init := fun
    | [m] => do
      let proc ← unmp m
      some (proc, newEnvironment proc)
    | _ => none
  step := fun s ws =>
    match ws with
    | ["custenv"] => some (s, s!"cust={showMap (customerEnvironmentVariables (s.1.map renderKV))}")
    | _ => do
      let o ← parseEnvOp ws
      let e := Env.step s.2 o
      some ((s.1, e), showEnvironment e)

def showSplit : Option (String × String) → String
  | some (k, v) => s!"ok:{hexOf k}:{hexOf v}"
  | none => "none"

/-- `op split x<s>` → result of the cut; `op kv x<k> x<v>` → the rendered string and its cut. -/
def envSplitModel : Model where
  σ := Unit
  init := fun _ => some ()
  step := fun _ ws =>
    match ws with
    | ["split", s] => do
      let s ← unhx s
      some ((), s!"sev={showSplit (split s)} front={showSplit (split s)}")
    | ["kv", k, v] => do
      let k ← unhx k
      let v ← unhx v
      let r := renderKV (k, v)
      some ((), s!"kv={hexOf r} sev={showSplit (split r)}")
    | _ => none

def sortStrings (l : List String) : List String := l.mergeSort fun a b => !(b < a)

def showEnviron (m : Layer) : String :=
  ",".intercalate ((sortStrings ((dedup m).map renderKV)).map hexOf)

/-- End-to-end: `init <environ map> x<handler arg> x<runtime api addr> <0|1 caching> x<host> <port>
    x<token>`; `op runtime` / `op agent` → the `KEY=VALUE` strings the child process must see. -/
def envE2EModel : Model where
  σ := Environment
  init := fun
    | [m, h, a, c, host, port, tok] => do
      let environ := (← unmp m).map renderKV
      let caching ← if c == "1" then do some (some (← unhx host, ← parseIntWord port, ← unhx tok))
                    else some none
      let ops ← frontOps environ (← unhx h) (← unhx a) caching
      some (run (newEnvironment (procOfEnviron environ)) ops)
    | _ => none
  step := fun e ws =>
    match ws with
    | ["runtime"] => some (e, if e.ready then showEnviron (runtimeEnv e) else "-")
    | ["agent"] => some (e, if e.ready then showEnviron (agentEnv e) else "-")
    | _ => none

end Rie.Oracle.EnvAd

namespace Rie.Oracle

def envModels : List (String × Model) :=
  [("env", EnvAd.envModel), ("envsplit", EnvAd.envSplitModel), ("enve2e", EnvAd.envE2EModel)]

end Rie.Oracle
