import Rie.Oracle.Core
/-! Oracle adaptors (line protocol ↔ model) — filled in by the Env work package. -/
namespace Rie.Oracle

def envModels : List (String × Model) := []

end Rie.Oracle
