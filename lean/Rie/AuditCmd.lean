import Lean
/-!
`#audit_props Ns` prints, for every theorem whose name starts with `Ns`, the axioms it depends
on: one line `AUDIT <name> axioms=[a,b,…]`. The check driver compares them with the allowed set
{propext, Classical.choice, Quot.sound}.
-/
open Lean Elab Command

elab "#audit_props " ns:ident : command => do
  let env ← getEnv
  let pre := ns.getId
  let mut names : Array Name := #[]
  for (n, ci) in env.constants.map₁.toList do
    if pre.isPrefixOf n && !n.isInternal then
      match ci with
      | .thmInfo _ => names := names.push n
      | _ => pure ()
  for (n, ci) in env.constants.map₂.toList do
    if pre.isPrefixOf n && !n.isInternal then
      match ci with
      | .thmInfo _ => names := names.push n
      | _ => pure ()
  let sorted := names.qsort (fun a b => a.toString < b.toString)
  for n in sorted do
    let axs ← liftCoreM <| collectAxioms n
    let l := axs.toList.map toString
    logInfo m!"AUDIT {n} axioms=[{",".intercalate l}]"
