import Rie.Proofs.Sys
import Rie.Props.Tables

/-!
# C04 — Invoke barrier and INVOKE event fan-out are exact

> For every invocation each extension subscribed to INVOKE receives exactly one INVOKE event
> carrying the same request id and function ARN as the runtime's, a deadline within a few
> milliseconds of the runtime's, and the caller's trace header value; extensions not subscribed
> receive none. The invocation is not reported complete, and the next invocation is not delivered
> to anyone, until the runtime has posted its response and asked for next and every
> INVOKE-subscribed extension has asked for next. Events reach each party in invocation order.

Model: `continueInvoke` (doInvoke: barriers, fan-out) and `orchResume` at the three invoke waits,
`wakeAgent`/`wakeRt` (the parked next handlers), `renderAgent`/`renderRuntime`. Tie: stackdrv
families healthy / misuse / faults (all subscription sets over 0..3 external and 0..2 internal
extensions, any party returning late, 2–5 consecutive invocations), monitors `mon_fanout`,
`mon_completion_barrier` (ids, ARN, trace value exactly; deadlines |Δ| ≤ 50 ms).
-/
namespace Rie.Props.C04
open Rie.Sys Rie.SM

/-- **Fan-out is exact.** Dispatching invocation `k`: the three barriers are re-armed, the
    agents-ready barrier expects exactly the INVOKE-subscribed agents, exactly those agents (and the
    runtime) are released — no one else —, and the renderer all of them will use carries this
    invocation's number, caller and payload: same request id for the runtime and every extension. -/
theorem C04_fanout_exact (s : State) (k c : Nat) (h : String) (hcur : s.curInv = some (k, c, h))
    (hok : (s.agents.filter fun a => decide (Ev.invoke ∈ a.subs)).length ≥ s.invFlow.agentReady.reset.arrived) :
    let s' := continueInvoke s
    s'.renderer = .invoke k c h ∧ s'.rtFlag = true ∧ s'.orch = .vAwaitResponse ∧
    s'.invFlow.agentReady.count = (s.agents.filter fun a => decide (Ev.invoke ∈ a.subs)).length ∧
    s'.agents = s.agents.map (fun a => if a.subs.contains .invoke then { a with flag := true } else a) := by
  have : ¬ ((s.agents.filter fun a => decide (Ev.invoke ∈ a.subs)).length < s.invFlow.agentReady.reset.arrived) := by omega
  simp [continueInvoke, hcur, Latch.setCount, this, State.emit]

/-- what each party is handed carries the same invocation number (the request id) and caller -/
theorem C04_same_id (s : State) (k c : Nat) (h : String) (hr : s.renderer = .invoke k c h) :
    renderRuntime s = s!"200,id#{k},body={h},arn=ok,ctx=ctx{c}" ∧
    renderAgent s = s!"200,INVOKE,id#{k},arn=ok,trace{if c == 0 then "" else toString c}" := by
  simp [renderRuntime, renderAgent, hr]

/-- an unsubscribed extension is not released by the dispatch, so its parked `next` stays parked
    (`wakeAgent` needs the flag) -/
theorem C04_unsubscribed_stay_parked (lifo : Bool) (s : State) (hf : ∀ a ∈ s.agents, a.parked > 0 → a.flag = false) :
    wakeAgent lifo s = none := by
  unfold wakeAgent pickAgent
  have hp : ∀ l : List Agent, (∀ a ∈ l, a.parked > 0 → a.flag = false) →
      l.find? (fun a => decide (a.parked > 0) && a.flag) = none := by
    intro l hl
    apply List.find?_eq_none.mpr
    intro a ha
    by_cases hp : a.parked > 0
    · simp [hl a ha hp]
    · simp [hp]
  have h1 := hp s.agents hf
  have h2 := hp s.agents.reverse (fun a ha => hf a (List.mem_reverse.mp ha))
  cases lifo <;> simp [h1, h2]

/-- **Completion barrier.** The handler reports the invocation complete only by passing, in this
    order: the runtime-response gate (the runtime posted its response), the runtime-ready gate (it
    asked for next), and — when extensions exist — the agents-ready gate (every INVOKE-subscribed
    agent asked for next); at each wait it stays blocked while the gate is closed. -/
theorem C04_completion_barrier (s : State) :
    (s.orch = .vAwaitResponse → s.invFlow.runtimeResponse.isOpen = false → orchResume s = none) ∧
    (s.orch = .vAwaitRuntimeReady → s.invFlow.runtimeReady.isOpen = false → orchResume s = none) ∧
    (s.orch = .vAwaitAgentsReady → s.invFlow.agentReady.isOpen = false → orchResume s = none) ∧
    (s.orch = .vAwaitResponse → s.invFlow.runtimeResponse.isOpen = true → s.invFlow.runtimeResponse.canceled = false →
        orchResume s = some { s with orch := .vAwaitRuntimeReady }) ∧
    (s.orch = .vAwaitAgentsReady → s.invFlow.agentReady.isOpen = true → s.invFlow.agentReady.canceled = false →
        s.invFlow.agentReady.arrived = s.invFlow.agentReady.count ∧ orchResume s = some (invokeReturned s true false "")) := by
  refine ⟨?_, ?_, ?_, ?_, ?_⟩
  · intro ho h; simp [orchResume, ho, h]
  · intro ho h; simp [orchResume, ho, h]
  · intro ho h; simp [orchResume, ho, h]
  · intro ho h hc; simp [orchResume, ho, h, hc]
  · intro ho h hc
    refine ⟨by simpa [Latch.isOpen, hc] using h, by simp [orchResume, ho, h, hc]⟩

/-- **No overlap.** The next invocation's handler cannot start while this one runs: handlers are
    taken from the queue only when the handler thread is idle. -/
theorem C04_no_overlap (s : State) (lifo : Bool) (ho : s.orch ≠ .idle)
    (h1 : orchResume s = none) (h2 : shutResume s s.shutFrom = none) (h3 : restoreResume s = none) :
    platformMove lifo s = firstSome (flightMove s) s.flights := by
  unfold platformMove
  simp only [orElse', h1, h2, h3]
  cases hq : s.queue <;> cases hoo : s.orch <;> simp_all

/-- each arrival at the invoke barriers comes from the intended transition only: the response gate
    is walked by `ResponseSent`, the runtime-ready gate by `Ready` from `ResponseSent` (table facts) -/
theorem C04_arrivals (st : RtState) (c : RtCall) (is : List (Instr RtState)) (h : rtProg st c = some is) :
    ((is.any fun i => match i with | .flow .invokeRuntimeResponse _ => true | _ => false) = true →
        c = .responseSent ∧ (st = .invocationResponse ∨ st = .invocationErrorResponse)) ∧
    ((is.any fun i => match i with | .flow .invokeRuntimeReady _ => true | _ => false) = true →
        c = .ready ∧ st = .responseSent) := by
  cases st <;> cases c <;> simp [rtProg] at h <;> subst h <;> simp

-- non-vacuity: one INVOKE-subscribed and one unsubscribed extension; completion needs response,
-- runtime next and the subscribed extension's next — not the unsubscribed one's
example :
    let s0 : State := { extFiles := ["a", "b"] }
    let s := [Op.invoke 0 5 "h", .register "a" [.invoke] "", .register "b" [] "", .rtNext, .agNext "a" "", .agNext "b" "",
              .rtResponse (some 1) 3 "r" false, .rtNext].foldl (step 0) s0
    s.outs = ["ev invokeRuntimeDone:success:-"] ∧ (step 0 s (.agNext "a" "")).outs = ["caller0 done err=ok body=bytes:r"] := by
  decide

/-- the state in which the runtime has died between two invocations while extension `a` waits in `next` -/
def diedIdle : State :=
  [Op.invoke 0 5 "h", .register "a" [.invoke, .shutdown] "", .agNext "a" "", .rtNext, .rtResponse (some 1) 5 "x" false,
   .rtNext, .agNext "a" "", .exit "runtime" "code2" false].foldl (step 0) { extFiles := ["a"] }

-- A dispatch that fails at once (the next invocation after the runtime died idle) releases the extension's
-- parked `next` for the event and again for the shutdown; a handler's wake-up and its reading of the event are
-- separate moves, so — the Go scheduler's choice, here the digit `v` — the extension reads SHUTDOWN once
-- (v = 0: not woken in between), reads INVOKE and finds its thread released again (v = 1), or reads SHUTDOWN
-- and finds its thread released again (v = 7: woken in between, read afterwards). All three were observed on
-- the real stack; the model had only the first two until the moves were split.
example :
    let out := fun v => let s := step v diedIdle (.invoke 1 5 "g"); (s.outs.filter (· != "sup term:runtime-1"), s.agents.map (·.flag))
    out 0 = (["ev invokeStart:id#2", "a.next=200,SHUTDOWN,ReleaseFail"], [false]) ∧
    out 1 = (["ev invokeStart:id#2", "a.next=200,INVOKE,id#2,arn=ok,trace1"], [true]) ∧
    out 7 = (["ev invokeStart:id#2", "a.next=200,SHUTDOWN,ReleaseFail"], [true]) := by decide +kernel

end Rie.Props.C04
