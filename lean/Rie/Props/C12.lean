import Rie.Proofs.Sys
import Rie.Props.Tables
import Rie.Props.RoutesTable

/-!
# C12 — Runtime API calls are answered according to the lifecycle automaton

> Every sequence of Runtime API calls is answered as the documented lifecycle prescribes: next
> blocks until an invocation is available and, if repeated before responding, returns the same
> invocation; response or error is accepted once per invocation and only after next; init error
> is accepted only before the first next; snapshot-restore calls exist only in snapshot mode.
> Calls that are illegal in the current state are refused with 403 (or 400 for a wrong request
> id, 404/405 for unknown routes) and leave the state unchanged, so that a following legal call
> behaves as if the illegal one had not happened.

Model: the runtime state-machine programs `Rie.SM.rtProg` (tied exhaustively to core/states.go by
the regenerated table, `Rie.Props.Tables.gen_rt_matches`) and the handlers in `Rie.Sys`
(`rtCallBlocking`, `rtResponse`, `rtError`, `rtInitError`, routing). Tie at handler level: stackdrv
family `misuse` (every call in every state, both init modes for routing).
-/
namespace Rie.Props.C12
open Rie.Sys Rie.SM

/-- the lifecycle: the complete list of (state, call) pairs that are not refused -/
def legal : List (RtState × RtCall) :=
  [(.started, .ready), (.started, .restoreReady), (.started, .initError),
   (.restoring, .ready), (.restoring, .restoreError),
   (.ready, .ready), (.running, .ready), (.running, .invocationResponse), (.running, .invocationErrorResponse),
   (.invocationResponse, .responseSent), (.invocationErrorResponse, .responseSent), (.responseSent, .ready)]

/-- **Default deny.** A transition is possible exactly for the documented pairs (all 70 checked). -/
theorem C12_lifecycle (st : RtState) (c : RtCall) : (rtProg st c).isSome = legal.contains (st, c) := by
  cases st <;> cases c <;> rfl

/-- response / error are possible only from `Running` (i.e. after a next was answered), init error
    only from `Started` (before the first next) -/
theorem C12_windows (st : RtState) :
    ((rtProg st .invocationResponse).isSome = true ↔ st = .running) ∧
    ((rtProg st .invocationErrorResponse).isSome = true ↔ st = .running) ∧
    ((rtProg st .initError).isSome = true ↔ st = .started) := by
  cases st <;> simp [rtProg]

/-- **A refused next changes nothing** (403 InvalidStateTransition, state untouched). -/
theorem C12_next_refused_inert (s : State) (st : RtState) (hrt : s.rt = some st) (hno : rtProg st .ready = none) :
    rtCallBlocking s "next" .ready = reply s "rt" "next" "403,InvalidStateTransition" := by
  simp [rtCallBlocking, hrt, hno]

/-- **next repeated before responding returns the same invocation**, without any state change. -/
theorem C12_next_repeats (s : State) (hrt : s.rt = some .running) :
    rtCallBlocking s "next" .ready = reply s "rt" "next" (renderRuntime s) := by
  simp only [rtCallBlocking, hrt, rtProg, runRtInstrs]
  rw [set_rt_eq s _ hrt]
  have : renderFor s "next" = renderRuntime s := by simp [renderFor]
  simp [this]

/-- **next blocks** from Started / Ready / ResponseSent / Restoring: the handler parks (it is listed
    as pending, nothing is answered) as long as the flow arrivals it makes are accepted. -/
theorem C12_next_blocks_ready (s : State) (hrt : s.rt = some .ready) :
    rtCallBlocking s "next" .ready =
      addPending { s with rtParked := s.rtParked ++ [{ okStates := [.ready, .running], next := .running, call := "next" }] } "rt" "next" := by
  simp [rtCallBlocking, hrt, rtProg, runRtInstrs]

/-- **init error after the first next is refused and changes nothing.** -/
theorem C12_initerror_refused_inert (s : State) (st : RtState) (et : String) (hrt : s.rt = some st)
    (h1 : st ≠ .started) (h2 : st ≠ .restoring) :
    rtInitError s et = reply s "rt" "initerror" "403,InvalidStateTransition" := by
  have : rtProg st .initError = none := by cases st <;> simp_all [rtProg]
  have h2' : (st == RtState.restoring) = false := by cases st <;> simp_all
  simp [rtInitError, hrt, h2', this]

/-- **restore routes exist only in snapshot mode; unknown routes 404, wrong method 405.** -/
theorem C12_routes :
    (∀ s : State, s.snapshot = false → applyOp s .rtRestoreNext = reply s "rt" "restorenext" "404") ∧
    rawRoute false "GET" "/2018-06-01/runtime/restore/next" = "404" ∧
    rawRoute true "GET" "/2018-06-01/runtime/restore/next" = "200" ∧
    rawRoute false "GET" "/2018-06-01/runtime/nonexistent" = "404" ∧
    rawRoute false "POST" "/2018-06-01/runtime/invocation/next" = "405" := by
  refine ⟨?_, by decide, by decide, by decide, by decide⟩
  intro s hs; simp [applyOp, hs]

-- non-vacuity: a legal run; an illegal call in the middle leaves the state as it was
example :
    let s := step 0 (step 0 {} (.invoke 0 5 "h")) .rtNext
    s.rt = some .running ∧ (step 0 s (.rtInitError "Runtime.Late")).outs = ["rt.initerror=403,InvalidStateTransition"] ∧
      (step 0 s (.rtInitError "Runtime.Late")).core = s.core := by decide

/-- **The route table is the source's.** The table `rawRoute` decides from — every (method, path)
    registered in `lambda/rapi/router.go`, with the version prefix and the condition under which
    `lambda/rapi/server.go` mounts it — is read from the source on every run (`unitdrv routes`,
    go/ast) and equals the model's `routeTable` row by row; restore routes and the credentials route
    exist under the snapshot condition only. -/
theorem C12_routes_from_source :
    Rie.Gen.routes = routeTable ∧
    (Rie.Gen.routes.filter (·.2.2.1 == "snapshot")).map (·.2.1) =
      ["/2018-06-01/runtime/restore/next", "/2018-06-01/runtime/restore/error", "/2021-04-23/credentials"] := by
  refine ⟨RoutesTable.gen_routes_match, ?_⟩
  rw [RoutesTable.gen_routes_match]; exact RoutesTable.guards.2.2.2

/-- routing decisions for every kind of request that only exercises routing: a served route, a
    served path with another method (405), an unknown path or version (404), the two telemetry
    stubs (202 with their error type, PUT only), snapshot-only routes outside snapshot mode (404) -/
theorem C12_routing_cases :
    rawRoute false "GET" "/2018-06-01/ping" = "200" ∧ rawRoute false "POST" "/2018-06-01/ping" = "405" ∧
    rawRoute false "PUT" "/2020-08-15/logs" = "202,Logs.NotSupported" ∧ rawRoute false "GET" "/2020-08-15/logs" = "405" ∧
    rawRoute true "PUT" "/2022-07-01/telemetry" = "202,Telemetry.NotSupported" ∧
    rawRoute false "GET" "/2019-01-01/runtime/invocation/next" = "404" ∧
    rawRoute false "GET" "/2021-04-23/credentials" = "404" ∧ rawRoute true "POST" "/2021-04-23/credentials" = "405" ∧
    rawRoute false "POST" "/2018-06-01/runtime/restore/error" = "404" ∧ rawRoute true "GET" "/2018-06-01/runtime/restore/error" = "405" ∧
    rawRoute false "GET" "/2020-01-01/extension/register" = "405" := by decide

end Rie.Props.C12
