import Rie.Proofs.Sys
import Rie.Proofs.SysInv
import Rie.Proofs.SysIds
import Rie.Proofs.SysIdsMono
import Rie.Proofs.SysResv
import Rie.Proofs.Payload
import Rie.Props.FrontEndTable

/-!
# C01 — Invocation round trip is byte-exact and yields exactly one outcome

> Every event posted to the invoke endpoint (up to the 6 MiB + 100 byte limit) is handed to the
> function runtime byte-for-byte on its next poll, together with a fresh request id, the function
> ARN, the decoded client context and a deadline equal to arrival time plus the configured
> function timeout. Whatever body the runtime posts as the response (or error) for that request id
> is returned unchanged to the caller of that invocation and to nobody else, and each invocation
> produces exactly one outcome; this holds for every invocation in a sequence, whatever sizes and
> contents came before.

Two models. `Rie.Payload`: the reused request buffer, over bytes — the request side is proved for
all histories. `Rie.Sys`: which caller's writer a body goes to (`sendReply`), ids, one outcome per
call. Bytes themselves cross the system model as opaque hashes; that they are unaltered is what the
correspondence checks (SHA-256 of what was posted vs. what arrived; families healthy / noext /
sizes: sizes 0, 1, 65537, 1 MiB±1, limit−1, limit, limit+1, contents zero / 0xFF / random / invalid
UTF-8 / CRLF). ARN, client context, trace value and deadline arithmetic are checked by the
harness and the monitors (`mon_roundtrip`, `mon_fanout`).
-/
namespace Rie.Props.C01
open Rie.Sys Rie.SM

/-- **Request exactness for all histories.** Whatever payloads (of any size and content) were
    handled before on the same emulator instance and however often each was polled, every poll of
    invocation `i` delivers exactly the first `max` bytes of its payload: the reused buffer never
    leaks bytes of an earlier invocation and never loses bytes of the current one. -/
theorem C01_request_exact (max : Nat) (old : List UInt8) (h : List (List UInt8 × Nat)) :
    ∀ i (hi : i < h.length), ∃ ds, (Rie.Payload.history max old h)[i]? = some ds ∧ ∀ x ∈ ds, x = (h[i].1).take max :=
  Rie.Payload.history_exact max old h

/-- **Fresh request id.** Every admitted invocation gets the next invocation number, which no earlier
    invocation had (the numbers model the uuids; uuid uniqueness itself is assumed). -/
theorem C01_fresh_id (s : State) (c size : Nat) (h : String) (hi : s.inited = true) (hr : s.resv = none) :
    (applyOp s (.invoke c size h)).resv = some { k := s.nextK, caller := c } ∧
    (applyOp s (.invoke c size h)).nextK = s.nextK + 1 := by
  simp [applyOp, startServerInit, hi, hr]

/-- **A fresh request id — whole runs.** From any state in which no invocation number is held (a freshly started
    emulator), after ANY sequence of ops — invocations, API calls in any order, exits, timeouts, resets,
    shutdowns, restores, every timer firing — under any scheduler choices: every invocation number the
    emulator still holds anywhere (`known`: the reservation's, those of queued handler requests, the running
    handler's, and the one in the renderer, i.e. the event a slow runtime may still fetch or answer) is below
    the counter. So the number the next admitted invocation gets (`C01_fresh_id`: the counter's value) differs
    from every one of them: a late response, error or poll under an old id can never be taken for the new
    invocation's. Invariant `Rie.Sys.KInv`, `Rie/Proofs/SysIds.lean` (one frame lemma per model function:
    "the counter stands and nothing new is held"). -/
theorem C01_fresh_id_run (s0 : State) (h0 : known s0 = []) (ops : List (Nat × Op)) :
    let s := (run s0 [] ops).1
    ∀ k, k ∈ known s → k < s.nextK ∧ k ≠ s.nextK := by
  intro s k hk
  have i0 : KInv s0 := by intro k hk; rw [h0] at hk; cases hk
  have h := kinv_run s0 [] ops i0 k hk
  exact ⟨h, Nat.ne_of_lt h⟩

-- non-vacuity: while an invocation is in flight its number is held in three places; after it has completed the
-- renderer still holds it (the runtime is parked on the old event's successor) when the next invocation is
-- admitted with the counter's value
example :
    let ops : List (Nat × Op) := [(0, .invoke 0 1 "a"), (0, .rtNext), (0, .rtResponse (some 1) 1 "x" false), (0, .rtNext)]
    known (run {} [] (ops.take 2)).1 = [1, 1, 1] ∧
    known (run {} [] ops).1 = [1] ∧ (run {} [] ops).1.nextK = 2 ∧ (run {} [] ops).1.resv = none ∧ known ({} : State) = [] := by
  decide +kernel

/-- **Request ids are never reused — whole runs.** Take any state `s1` the emulator reaches from a fresh start
    and any state `s2` it reaches from there by ANY further ops (any scheduler choices). If an invocation is in
    flight in both, the later one's number is not smaller than the earlier one's, and it is the same number
    exactly when no invocation was admitted in between (the counter has not moved): two different admitted
    invocations never share an id, however many resets, timeouts, shutdowns or restores lie between them —
    stronger than `C01_fresh_id_run`, which compares a new id only with the ids still held.
    `nextK_run` (`Rie/Proofs/SysIdsMono.lean`: the counter never goes back) + `RInv` (`SysResv`). -/
theorem C01_ids_increase_run (s0 : State) (h0 : s0.resv = none) (ops1 ops2 : List (Nat × Op)) (H : List Nat) :
    let s1 := (run s0 [] ops1).1
    let s2 := (run s1 H ops2).1
    ∀ r1 r2, s1.resv = some r1 → s2.resv = some r2 →
      r1.k ≤ r2.k ∧ (r1.k = r2.k ↔ s2.nextK = s1.nextK) := by
  intro s1 s2 r1 r2 h1 h2
  have i0 : RInv s0 := by intro r hr; rw [h0] at hr; cases hr
  have i1 : RInv s1 := rinv_run s0 [] ops1 i0
  have e1 : r1.k + 1 = s1.nextK := i1 r1 h1
  have e2 : r2.k + 1 = s2.nextK := rinv_run s1 H ops2 i1 r2 h2
  have m : s1.nextK ≤ s2.nextK := nextK_run s1 H ops2
  omega

-- non-vacuity: the first invocation (number 1) times out and is reset; the next admitted one has number 2
example :
    let ops1 : List (Nat × Op) := [(0, .invoke 0 1 "a"), (0, .rtNext)]
    let ops2 : List (Nat × Op) := [(0, .timer (.invoke 0)), (0, .timer (.resetTail 1)), (0, .invoke 1 1 "b")]
    let s1 := (run {} [] ops1).1
    (s1.resv.map (·.k), (run s1 [] ops2).1.resv.map (·.k)) = (some 1, some 2) := by decide +kernel

/-- **To the caller of that invocation and to nobody else.** A body is written only by `sendReply`,
    and `sendReply` writes to the writer attached to the reservation whose id it was given: every
    other call's flight is untouched, and a wrong id writes nothing at all. -/
theorem C01_reply_targets_reservation (s : State) (k : Nat) (body : String) :
    (∀ r, s.resv = some r → r.k ≠ k → sendReply s k body = (s, .invalidId)) ∧
    (s.resv = none → sendReply s k body = (s, .invalidId)) ∧
    (∀ r, s.resv = some r → r.replySent = true → r.k = k → sendReply s k body = (s, .responseSent)) := by
  refine ⟨?_, ?_, ?_⟩
  · intro r hr hk
    have : (r.k != k) = true := by simpa using hk
    simp [sendReply, hr, this]
  · intro hr; simp [sendReply, hr]
  · intro r hr hs hk; subst hk; simp [sendReply, hr, hs]

/-- the body is written **at most once** per reservation: after a successful `sendReply` the reply is
    marked sent, so every later attempt for that reservation is refused (see the third clause above) -/
theorem C01_reply_once (s : State) (r : Resv) (f : Flight) (body : String)
    (hr : s.resv = some r) (hs : r.replySent = false) (hst : r.replyStream = true)
    (hf : getFlight s r.caller = some f) :
    ((sendReply s r.k body).1.resv.map (·.replySent)) = some true :=  by
  rw [sendReply_eq s r f body hr hs hst hf]; rfl

/-- **What the runtime is handed** is the event of the invocation whose reservation is being served:
    the renderer installed by `continueInvoke` carries that invocation's number, caller and payload. -/
theorem C01_renderer_is_current (s : State) (k c : Nat) (h : String) (hcur : s.curInv = some (k, c, h))
    (hok : (s.invFlow.agentReady.reset.setCount (s.agents.filter fun a => decide (Ev.invoke ∈ a.subs)).length).2 = true) :
    (continueInvoke s).renderer = .invoke k c h ∧
    renderRuntime (continueInvoke s) = s!"200,id#{k},body={h},arn=ok,ctx=ctx{c}" := by
  simp only [continueInvoke, hcur, State.emit]
  simp [hok, renderRuntime]

/-- **Exactly one outcome — whole runs.** Take any initial configuration and any sequence of ops
    (invocations, API calls of the runtime and of extensions, process exits, resets, shutdowns,
    restores, timer firings) under any scheduler choices `v`, the invocations carrying pairwise
    distinct caller numbers. Then, counting the outcomes (`Out.caller`) emitted over the whole run:
    no caller is answered twice; a caller is answered or still in flight exactly when it was
    submitted; and no caller is both answered and still in flight. Proved as an invariant of every
    reachable state (`Rie.Sys.Inv`, `inv_run`): one frame lemma per model function shows that only
    `finishFlight` and the refusal of a second invocation emit an outcome, the former removing the
    flight it answers. What is *not* proved here: that a call in flight is eventually answered
    (that needs the environment to fire the armed timer — see `C05_timeout_armed`). -/
theorem C01_one_outcome (s0 : State) (h0 : Initial s0) (ops : List (Nat × Op)) (hfresh : (submitted ops).Nodup) :
    let r := run s0 [] ops
    let answered := r.2 ++ doneOf r.1.out
    answered.Nodup ∧
    (∀ c, c ∈ submitted ops ↔ (c ∈ callers r.1 ∨ c ∈ answered)) ∧
    (∀ c ∈ callers r.1, c ∉ answered) := by
  have i := inv_run s0 ops (inv_initial s0 h0) (by simpa using hfresh)
  simp only [List.nil_append] at i
  exact ⟨i.once, i.sub, i.excl⟩

/-- **One outcome at the HTTP level** (front end, `cmd/aws-lambda-rie/handlers.go`; the table is
    regenerated from the source and proved equal to the model's, `FrontEndTable.gen_frontend_matches`).
    Whatever error `sandbox.Invoke` returned — any string, also one no case names — and whatever status
    the emulator core put into the response proxy, the caller's HTTP response consists of at most one
    thing: the proxy's body (the runtime's response or the platform's error) *or* the front end's
    time-out text, never both; and for the time-out it is exactly the time-out text. -/
theorem C01_frontend_one_outcome (err : Option String) (proxyStatus : Nat) :
    (Rie.FrontEnd.respond err proxyStatus).chunks.length ≤ 1 ∧
    Rie.FrontEnd.respond (some "ErrInvokeTimeout") proxyStatus = { status := 0, chunks := [.timeoutMsg] } ∧
    Rie.FrontEnd.respond none proxyStatus = { status := proxyStatus, chunks := [.body] } := by
  refine ⟨?_, ?_, ?_⟩
  · -- every row of the table, and the tail, writes at most one chunk
    have hrows : ∀ row ∈ Rie.FrontEnd.table, ∀ ps : Nat,
        (let (r, returned) := Rie.FrontEnd.run ps row.2 {}
         if returned then r else (Rie.FrontEnd.run ps Rie.FrontEnd.tail r).1).chunks.length ≤ 1 := by
      intro row hrow ps
      simp only [Rie.FrontEnd.table, List.mem_cons, List.not_mem_nil, or_false] at hrow
      rcases hrow with h | h | h | h | h | h | h | h | h | h | h | h <;> subst h <;>
        simp [Rie.FrontEnd.run, Rie.FrontEnd.tail, Rie.FrontEnd.setStatus] <;> (try (split <;> simp))
    have htail : ∀ ps : Nat, (Rie.FrontEnd.run ps Rie.FrontEnd.tail {}).1.chunks.length ≤ 1 := by
      intro ps; simp [Rie.FrontEnd.run, Rie.FrontEnd.tail]; split <;> simp [Rie.FrontEnd.setStatus]
    unfold Rie.FrontEnd.respond
    cases err with
    | none => exact htail proxyStatus
    | some e =>
      dsimp only
      cases hf : Rie.FrontEnd.table.find? (·.1.contains e) with
      | none => exact htail proxyStatus
      | some row => exact hrows row (List.mem_of_find?_eq_some hf) proxyStatus
  · simp [Rie.FrontEnd.respond, Rie.FrontEnd.table, Rie.FrontEnd.run]
  · by_cases h : proxyStatus = 0 <;> simp [Rie.FrontEnd.respond, Rie.FrontEnd.run, Rie.FrontEnd.tail, Rie.FrontEnd.setStatus, h]

-- non-vacuity: a healthy invocation, then a second caller refused while a third invocation is in flight
example :
    let ops : List (Nat × Op) := [(0, .invoke 0 5 "h"), (0, .rtNext), (0, .rtResponse (some 1) 2 "r" false), (0, .rtNext),
                                  (3, .invoke 1 5 "h"), (1, .invoke 2 5 "h")]
    let r := run {} [] ops
    r.2 = [0] ∧ doneOf r.1.out = [2] ∧ callers r.1 = [1] ∧ submitted ops = [0, 1, 2] := by decide

-- non-vacuity: two invocations in sequence on one instance, the second shorter than the first:
-- each is delivered exactly, nothing of the first leaks into the second
example : Rie.Payload.history 4 [] [([1, 2, 3, 4, 5, 6], 2), ([9], 1), ([], 2)] = [[[1, 2, 3, 4], [1, 2, 3, 4]], [[9]], [[], []]] := by
  decide

example :
    let s := step 0 (step 0 {} (.invoke 0 5 "PAYLOADHASH")) .rtNext
    s.outs = ["ev initRuntimeDone:init:success:-", "ev initReport:init", "ev invokeStart:id#1",
             "rt.next=200,id#1,body=PAYLOADHASH,arn=ok,ctx=ctx0"] := by decide

end Rie.Props.C01
