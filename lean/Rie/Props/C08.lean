import Rie.Proofs.Sys

/-!
# C08 — A reset leaves no trace of earlier generations

> After a reset the emulator behaves, for any subsequent sequence of events, exactly like a
> freshly started one apart from process generation numbers and request ids: no registration,
> subscription, recorded error, cached error response, runtime identity string, barrier arrival or
> cancellation from an earlier generation influences later invocations. In particular a
> notification about a process of the old generation that is handled late must not disturb the new
> generation.

Model: `afterReset` (= `reinitialize`, handlers.go) followed by `resetTail` (= `Server.Clear`,
phase reset, `Release`). Tie: every stackdrv family continues after resets (faults, timeouts,
chaos, shutdown: the suffix after a reset is compared with the model step by step), plus the
pause-point replays in corpus/C05 and corpus/C08 (late exit notification, zombie invoke).
-/
namespace Rie.Props.C08
open Rie.Sys Rie.SM

/-- the part of the state that determines future behaviour, with the generation-dependent
    parts (generation number, request counter, process table, harness-side identifiers, serial
    numbers) and the output of the current op left out -/
structure Residue where
  agents : List Agent
  rt : Option RtState
  rtFlag : Bool
  rtParked : List Park
  renderer : Renderer
  fatal : Option String
  initDone : Bool
  regOn : Bool
  cancelDone : Bool
  cached : Option String
  doneChan : Option String
  resv : Option Resv
  rapidPhaseInvoking : Bool
  gates : List (Nat × Bool × Option CErr)     -- (arrived, canceled, err) of the seven gates
deriving DecidableEq

def residue (s : State) : Residue :=
  { agents := s.agents, rt := s.rt, rtFlag := s.rtFlag, rtParked := s.rtParked, renderer := s.renderer,
    fatal := s.fatal, initDone := s.initDone, regOn := s.regOn, cancelDone := s.cancelDone, cached := s.cached,
    doneChan := s.doneChan, resv := s.resv, rapidPhaseInvoking := s.rapidPhaseInvoking,
    gates := [s.initFlow.extRegistered, s.initFlow.runtimeReady, s.initFlow.agentReady, s.initFlow.restoreReady,
              s.invFlow.runtimeReady, s.invFlow.runtimeResponse, s.invFlow.agentReady].map
             fun g => (g.arrived, g.canceled, g.err) }

/-- **Reset = fresh.** Whatever the state before (any registrations, subscriptions, recorded fatal
    error, cached init error, parked handlers, barrier arrivals, cancellations, renderer, pending
    done message, reservation), after the reset has completed this part of the state is exactly that
    of a freshly started emulator. -/
theorem C08_reset_fresh (s : State) (from_ : Nat) :
    residue (resetTail (afterReset s from_) from_) = residue ({} : State) := by
  simp only [resetTail, afterReset, release]
  split <;> simp [residue, Latch.clear, State.emit]

/-!
What `residue` leaves out, and why it cannot influence later invocations:
* gate `count`s survive `Clear()` (only `arrived/canceled/err` are cleared). The counts that are ever
  changed (`extRegistered`, both `agentReady`) are set again before the first wait of the next
  generation (`startInit`, `orchResume` at `iAwaitRestoreReady`, `continueInvoke`); the other four
  are the constant 1. A walk that arrives *before* the count is set again can meet a stale count
  (e.g. 0): then it is refused with ErrGateIntegrity, which the agent programs ignore — recorded as
  a limit, see DESIGN.md (D10).
* `gen`, `nextK`, `procs`, `ids`, `nextSerial`: names only.
-/

/-- the example state: every kind of trace present before the reset -/
example :
    let dirty : State := { agents := [{ name := "a", ext := true, st := .running, subs := [.invoke], flag := true }],
                           rt := some .running, fatal := some "Extension.Crash", cached := some "errjson:X",
                           cancelDone := true, initDone := true, regOn := false, renderer := .shutdown "x",
                           initFlow := { extRegistered := { count := 1, arrived := 1, canceled := true, err := some .procExit } } }
    residue (resetTail (afterReset dirty 0) 0) = residue ({} : State) ∧ residue dirty ≠ residue ({} : State) := by
  decide

end Rie.Props.C08
