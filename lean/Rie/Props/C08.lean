import Rie.Proofs.Sys

/-!
# C08 — A reset leaves no trace of earlier generations

> After a reset the emulator behaves, for any subsequent sequence of events, exactly like a
> freshly started one apart from process generation numbers and request ids: no registration,
> subscription, recorded error, cached error response, runtime identity string, barrier arrival or
> cancellation from an earlier generation influences later invocations. In particular a
> notification about a process of the old generation that is handled late must not disturb the new
> generation.

Model: `afterReset` (= `reinitialize`, handlers.go) followed by `resetTail` (= `Server.Clear`,
phase reset, `Release`). Tie: every stackdrv family continues after resets (faults, timeouts,
chaos, shutdown: the suffix after a reset is compared with the model step by step), plus the
pause-point replays in corpus/C05 and corpus/C08 (late exit notification, zombie invoke).
-/
namespace Rie.Props.C08
open Rie.Sys Rie.SM

/-- the part of the state that determines future behaviour, with the generation-dependent
    parts (generation number, request counter, process table, harness-side identifiers, serial
    numbers) and the output of the current op left out -/
structure Residue where
  agents : List Agent
  rt : Option RtState
  rtFlag : Bool
  rtParked : List Park
  renderer : Renderer
  fatal : Option String
  initDone : Bool
  regOn : Bool
  cancelDone : Bool
  cached : Option String
  doneChan : Option String
  resv : Option Resv
  rapidPhaseInvoking : Bool
  gates : List (Nat × Bool × Option CErr)     -- (arrived, canceled, err) of the seven gates
  initAgentsExpected : Nat                    -- expected count of the init flow's agents-ready gate (arrivals may precede its setting)
  initFailurePending : Bool                   -- an init failure nobody has awaited waits in the interop server's channel
deriving DecidableEq

def residue (s : State) : Residue :=
  { agents := s.agents, rt := s.rt, rtFlag := s.rtFlag, rtParked := s.rtParked, renderer := s.renderer,
    fatal := s.fatal, initDone := s.initDone, regOn := s.regOn, cancelDone := s.cancelDone, cached := s.cached,
    doneChan := s.doneChan, resv := s.resv, rapidPhaseInvoking := s.rapidPhaseInvoking,
    gates := [s.initFlow.extRegistered, s.initFlow.runtimeReady, s.initFlow.agentReady, s.initFlow.restoreReady,
              s.invFlow.runtimeReady, s.invFlow.runtimeResponse, s.invFlow.agentReady].map
             fun g => (g.arrived, g.canceled, g.err),
    initAgentsExpected := s.initFlow.agentReady.count, initFailurePending := s.initChan.isFailure }

/-- **Reset = fresh.** Whatever the state before (any registrations, subscriptions, recorded fatal
    error, cached init error, parked handlers, barrier arrivals, cancellations, renderer, pending
    done message, reservation), after the reset has completed this part of the state is exactly that
    of a freshly started emulator. -/
theorem C08_reset_fresh (s : State) (from_ : Nat) :
    residue (resetTail (afterReset s from_) from_) = residue ({} : State) := by
  simp only [resetTail, afterReset, release]
  split <;> cases s.initChan <;> simp [residue, Latch.clear, State.emit, InitChan.drain, InitChan.isFailure]

/-!
What `residue` leaves out, and why it cannot influence later invocations:
* the other gate `count`s survive `Clear()` (only `arrived/canceled/err` are cleared): `extRegistered`
  and the invoke flow's `agentReady` are set again before anybody can arrive in the next generation
  (`startInit` sets the former before the first extension is launched, `continueInvoke` the latter
  before the invocation is dispatched); the other four are the constant 1. The init flow's
  `agentReady` is different — agents may ask for their first event before the runtime does, which is
  when its count is set — and it used to keep the count of the previous init, so that such early
  arrivals were refused once the old count was reached and the init never completed (finding F14,
  repaired in /repo 247298e: `Clear` expects the maximum again). It is part of the residue now.
* `initChan` other than "a failure is pending": whether the one `Init` of the emulator's lifetime has been
  requested, is running, or has been consumed (`notStarted/pending/closed`) is not a trace of a generation —
  the next invocation starts the (suppressed) init it needs in all three. A *pending failure* is different:
  it is the outcome of the torn-down generation's init, and the next invocation used to receive it (cache an
  error response for it, shut the new environment down) — finding F15, repaired in /repo 90b799c: `Clear`
  takes it along. It is part of the residue now (`initFailurePending`).
* `gen`, `nextK`, `procs`, `ids`, `nextSerial`: names only.
-/

/-- the example state: every kind of trace present before the reset -/
example :
    let dirty : State := { agents := [{ name := "a", ext := true, st := .running, subs := [.invoke], flag := true }],
                           rt := some .running, fatal := some "Extension.Crash", cached := some "errjson:X",
                           cancelDone := true, initDone := true, regOn := false, renderer := .shutdown "x",
                           initChan := .failure false "Runtime.ExitError",
                           initFlow := { extRegistered := { count := 1, arrived := 1, canceled := true, err := some .procExit },
                                         agentReady := { count := 1, arrived := 1 } } }
    residue (resetTail (afterReset dirty 0) 0) = residue ({} : State) ∧ residue dirty ≠ residue ({} : State) := by
  decide

/-- **Early arrivals of the next generation are counted** (F14): after a reset the init flow's
    agents-ready gate accepts an arrival whatever the number of agents of the previous generation
    was — as on a fresh emulator. -/
theorem C08_early_arrival_counted (s : State) (from_ : Nat) :
    ((resetTail (afterReset s from_) from_).initFlow.agentReady.walk).2 = true := by
  simp only [resetTail, afterReset, release]
  split <;> simp [Latch.walk, Latch.clear, State.emit]

/-- **A reset takes an un-awaited init failure with it** (F15): whatever the interop server's channel
    held, after the reset no failure of the old generation waits for the next invocation. -/
theorem C08_no_pending_init_failure (s : State) (from_ : Nat) :
    (resetTail (afterReset s from_) from_).initChan.isFailure = false := by
  simp only [resetTail, afterReset, release]
  split <;> cases s.initChan <;> simp [State.emit, InitChan.drain, InitChan.isFailure]

-- the history of F15 in the model: an init without an invocation fails (the runtime reports an init error and
-- exits), the idle emulator is reset, and the next invocation's runtime dies after taking the event: the
-- caller is told Runtime.ExitError — as on a fresh emulator (second conjunct) — not the stale empty response
example :
    let prefix_ : List Op := [.init, .rtInitError "Runtime.Boom", .exit "runtime" "code1" false, .reset "timeout", .timer (.resetTail 0)]
    let suffix : List Op := [.invoke 1 5 "h", .rtNext, .exit "runtime" "code1" false, .timer (.resetTail 2)]
    "caller1 done err=InvokeDoneFailed body=errjson:Runtime.ExitError" ∈ ((prefix_ ++ suffix).foldl (step 0) {}).outs ∧
    "caller1 done err=InvokeDoneFailed body=errjson:Runtime.ExitError" ∈ (suffix.foldl (step 0) {}).outs := by
  decide +kernel

end Rie.Props.C08
