import Rie.Proofs.Env

/-!
# C16 — Process environment: reserved values win, extensions get a filtered view

> The environment given to the runtime is the customer-supplied variables overlaid, in this
> order, by unreserved platform defaults, credentials, reserved runtime variables and reserved
> platform variables, so that handler, function name and version, credentials and the Runtime API
> address cannot be overridden by customer values, and every variable not shadowed arrives
> unchanged, including values containing '='. Extensions receive customer, credential and
> platform variables only, never names starting with '_' nor the X-Ray exclusions, and always the
> same Runtime API address as the runtime, which is the address the API server really listens on.

Quantification: every theorem holds for all process environments `proc` of the emulator, all
sequences `ops` of calls of the exported mutators of `env.Environment` (arbitrary customer maps —
colliding with every reserved key, empty values, values with `'='` and newlines —, init
parameters, handler overrides, both credential modes) and all keys / values (`String`, which
contains every byte string, see `Rie.Model.Env`).

The key sets (`platformKeys`, `runtimeKeys`, …, `apiKey`, `handlerKey`, …) are those of
`Rie.Gen.EnvKeys`, regenerated from the built code on every run; the facts about them that the
proofs need (`apiKey ∈ platformKeys`, the credential keys are in no other class, `apiKey` does not
start with `_` and is not excluded, …) are `decide`d by the kernel on the regenerated lists.

Not provable here (tested only, `envdrv e2e`): "which is the address the API server really
listens on".
-/
namespace Rie.Props.C16
open Rie.Env Rie.Gen.EnvKeys

/-! ### side conditions on the regenerated key sets -/

/-- the classes are pairwise disjoint where the proofs need it, and the keys that the methods write
    are pairwise different -/
theorem C16_keys_side_conditions :
    (∀ k ∈ allCredentialKeys, k ∉ platformKeys ∧ k ∉ runtimeKeys) ∧
    (∀ k ∈ runtimeKeys, k ∉ platformKeys) ∧
    apiKey ∈ platformKeys ∧ fnNameKey ∈ platformKeys ∧ fnVersionKey ∈ platformKeys ∧
    handlerKey ∈ runtimeKeys ∧ initHandlerKey = handlerKey ∧
    [accessKeyIdKey, secretKeyKey, sessionTokenKey].Nodup ∧
    (∀ k ∈ [accessKeyIdKey, secretKeyKey, sessionTokenKey], k ∈ credentialKeys) ∧
    cachingUriKey ≠ cachingTokenKey ∧ [apiKey, fnNameKey, fnVersionKey].Nodup ∧
    underscored apiKey = false ∧ apiKey ∉ extensionExcludedKeys ∧
    apiKey = apiKeyConst ∧ handlerKey = handlerKeyConst := by decide

/-- The names the property (and the Lambda documentation) uses are the keys the code writes, and
    the X-Ray exclusions are excluded — on the regenerated lists. -/
theorem C16_documented_names :
    apiKey = "AWS_LAMBDA_RUNTIME_API" ∧ handlerKey = "_HANDLER" ∧
    fnNameKey = "AWS_LAMBDA_FUNCTION_NAME" ∧ fnVersionKey = "AWS_LAMBDA_FUNCTION_VERSION" ∧
    [accessKeyIdKey, secretKeyKey, sessionTokenKey] =
      ["AWS_ACCESS_KEY_ID", "AWS_SECRET_ACCESS_KEY", "AWS_SESSION_TOKEN"] ∧
    (∀ k ∈ ["AWS_XRAY_CONTEXT_MISSING", "_AWS_XRAY_DAEMON_ADDRESS", "_AWS_XRAY_DAEMON_PORT"],
      agentExcluded k = true) := by decide

/-! ### precedence -/

/-- **Layer order.** What the runtime gets for `k` is the first defined value among: reserved
    platform, reserved runtime, credentials, unreserved platform defaults, customer. -/
theorem C16_precedence (e : Environment) (k : String) :
    (runtimeEnv e).lookup k =
      firstSome [e.platform.lookup k, e.runtime.lookup k, e.credentials.lookup k,
                 e.platformUnreserved.lookup k, e.customer.lookup k] := by
  simp [runtimeEnv, lookup_union]

/-- Customer maps accumulate, the later call wins per key (`StoreEnvironmentVariablesFromInit`
    after `…FromCLIOptions`), and nothing else ever writes the customer layer. -/
theorem C16_customer_layer (e : Environment) (o : Op) (k : String) :
    (step e o).customer.lookup k =
      match o with
      | .storeFromInit cust .. => firstSome [cust.lookup k, e.customer.lookup k]
      | .storeFromInitCaching _ _ cust .. => firstSome [cust.lookup k, e.customer.lookup k]
      | .storeFromCLI vars => firstSome [vars.lookup k, e.customer.lookup k]
      | _ => e.customer.lookup k := by
  cases o <;> simp [step, storeNonCredential, lookup_union]

/-! ### reserved values win -/

/-- **Independence.** Two histories that differ only in the customer maps handed in give the same
    reserved layers, hence the same delivered value for every key that a reserved layer defines. -/
theorem C16_reserved_win (proc : Layer) (ops ops' : List Op)
    (hsame : ops.map Op.eraseCustomer = ops'.map Op.eraseCustomer) (k : String) :
    let e := run (newEnvironment proc) ops
    let e' := run (newEnvironment proc) ops'
    (e.platform = e'.platform ∧ e.runtime = e'.runtime ∧ e.credentials = e'.credentials ∧
      e.platformUnreserved = e'.platformUnreserved ∧ e.ready = e'.ready) ∧
    ((firstSome [e.platform.lookup k, e.runtime.lookup k, e.credentials.lookup k,
        e.platformUnreserved.lookup k]).isSome →
      (runtimeEnv e).lookup k = (runtimeEnv e').lookup k ∧
      (runtimeEnv e).lookup k = firstSome [e.platform.lookup k, e.runtime.lookup k,
        e.credentials.lookup k, e.platformUnreserved.lookup k]) := by
  intro e e'
  have h := reserved_run (newEnvironment proc) (newEnvironment proc) ops ops' rfl hsame
  simp only [Environment.reserved, Prod.mk.injEq] at h
  obtain ⟨_, h2, h3, h4, h5, h6, h7⟩ := h
  have hp : e.platform = e'.platform := h2
  have hr : e.runtime = e'.runtime := h3
  have hu : e.platformUnreserved = e'.platformUnreserved := h4
  have hc : e.credentials = e'.credentials := h5
  have hrd : e.ready = e'.ready := by
    show (e.initEnvVarsSet && e.runtimeAPISet) = (e'.initEnvVarsSet && e'.runtimeAPISet)
    rw [show e.initEnvVarsSet = e'.initEnvVarsSet from h7, show e.runtimeAPISet = e'.runtimeAPISet from h6]
  refine ⟨⟨hp, hr, hc, hu, hrd⟩, ?_⟩
  rw [C16_precedence, C16_precedence, ← hp, ← hr, ← hu, ← hc]
  cases e.platform.lookup k <;> cases e.runtime.lookup k <;> cases e.credentials.lookup k <;>
    cases e.platformUnreserved.lookup k <;> simp [firstSome]

/-- **The named values (normal credential mode).** In every reachable state, right after
    `StoreEnvironmentVariablesFromInit(cust, handler, key, secret, session, name, version)` the
    runtime gets exactly these credentials, this handler / function name / version when given
    (non-empty), and the stored Runtime API address — whatever `cust` and all earlier customer
    maps contain. -/
theorem C16_reserved_values (proc : Layer) (pre : List Op) (cust : Layer)
    (h ak sk st fn fv : String) :
    let e0 := run (newEnvironment proc) pre
    let e := step e0 (.storeFromInit cust h ak sk st fn fv)
    (runtimeEnv e).lookup accessKeyIdKey = some ak ∧
    (runtimeEnv e).lookup secretKeyKey = some sk ∧
    (runtimeEnv e).lookup sessionTokenKey = some st ∧
    (h ≠ "" → (runtimeEnv e).lookup handlerKey = some h) ∧
    (fn ≠ "" → (runtimeEnv e).lookup fnNameKey = some fn) ∧
    (fv ≠ "" → (runtimeEnv e).lookup fnVersionKey = some fv) ∧
    (∀ addr, e0.platform.lookup apiKey = some addr → (runtimeEnv e).lookup apiKey = some addr) := by
  intro e0 e
  have wf0 : WF e0 := wf_run (wf_new proc) pre
  have wf : WF e := wf_step wf0 _
  have hcred : ∀ k ∈ allCredentialKeys, e.platform.lookup k = none ∧ e.runtime.lookup k = none :=
    fun k hk => ⟨wf.platform.lookup_none (C16_keys_side_conditions.1 k hk).1,
                 wf.runtime.lookup_none (C16_keys_side_conditions.1 k hk).2⟩
  have hc : e.credentials = put (put (put e0.credentials accessKeyIdKey ak) secretKeyKey sk) sessionTokenKey st := by
    simp [e, step, storeNonCredential]
  have n1 : accessKeyIdKey ≠ secretKeyKey := by decide
  have n2 : accessKeyIdKey ≠ sessionTokenKey := by decide
  have n3 : secretKeyKey ≠ sessionTokenKey := by decide
  refine ⟨?_, ?_, ?_, ?_, ?_, ?_, ?_⟩
  · rw [C16_precedence, (hcred _ accessKeyIdKey_cred).1, (hcred _ accessKeyIdKey_cred).2, hc]
    simp [firstSome, lookup_put, n1, n2]
  · rw [C16_precedence, (hcred _ secretKeyKey_cred).1, (hcred _ secretKeyKey_cred).2, hc]
    simp [firstSome, lookup_put, n3]
  · rw [C16_precedence, (hcred _ sessionTokenKey_cred).1, (hcred _ sessionTokenKey_cred).2, hc]
    simp [firstSome, lookup_put]
  · intro hh
    have hp : e.platform.lookup handlerKey = none :=
      wf.platform.lookup_none (C16_keys_side_conditions.2.1 _ handlerKey_runtime)
    have hr : e.runtime.lookup handlerKey = some h := by
      simp [e, step, storeNonCredential, hh, lookup_put]
    rw [C16_precedence, hp, hr]; rfl
  · intro hf
    have hp : e.platform.lookup fnNameKey = some fn := by
      have : fnNameKey ≠ fnVersionKey := by decide
      simp only [e, step, storeNonCredential, hf, if_false]
      split <;> simp [lookup_put, this]
    rw [C16_precedence, hp]; rfl
  · intro hf
    have hp : e.platform.lookup fnVersionKey = some fv := by
      simp [e, step, storeNonCredential, hf, lookup_put]
    rw [C16_precedence, hp]; rfl
  · intro addr ha
    have hp : e.platform.lookup apiKey = some addr := by
      rw [show e.platform.lookup apiKey = e0.platform.lookup apiKey from api_step e0 _ rfl, ha]
    rw [C16_precedence, hp]; rfl

/-- **The named values (init-caching credential mode)**: the credentials endpoint and its token. -/
theorem C16_reserved_values_caching (proc : Layer) (pre : List Op) (cust : Layer) (host : String)
    (port : Int) (h fn fv tok : String) :
    let e0 := run (newEnvironment proc) pre
    let e := step e0 (.storeFromInitCaching host port cust h fn fv tok)
    (runtimeEnv e).lookup cachingUriKey = some (credentialsURI host port) ∧
    (runtimeEnv e).lookup cachingTokenKey = some tok ∧
    (h ≠ "" → (runtimeEnv e).lookup handlerKey = some h) ∧
    (fn ≠ "" → (runtimeEnv e).lookup fnNameKey = some fn) ∧
    (fv ≠ "" → (runtimeEnv e).lookup fnVersionKey = some fv) ∧
    (∀ addr, e0.platform.lookup apiKey = some addr → (runtimeEnv e).lookup apiKey = some addr) := by
  intro e0 e
  have wf0 : WF e0 := wf_run (wf_new proc) pre
  have wf : WF e := wf_step wf0 _
  have hcred : ∀ k ∈ allCredentialKeys, e.platform.lookup k = none ∧ e.runtime.lookup k = none :=
    fun k hk => ⟨wf.platform.lookup_none (C16_keys_side_conditions.1 k hk).1,
                 wf.runtime.lookup_none (C16_keys_side_conditions.1 k hk).2⟩
  have hc : e.credentials = put (put e0.credentials cachingUriKey (credentialsURI host port)) cachingTokenKey tok := by
    simp [e, step, storeNonCredential]
  have n1 : cachingUriKey ≠ cachingTokenKey := by decide
  refine ⟨?_, ?_, ?_, ?_, ?_, ?_⟩
  · rw [C16_precedence, (hcred _ cachingUriKey_cred).1, (hcred _ cachingUriKey_cred).2, hc]
    simp [firstSome, lookup_put, n1]
  · rw [C16_precedence, (hcred _ cachingTokenKey_cred).1, (hcred _ cachingTokenKey_cred).2, hc]
    simp [firstSome, lookup_put]
  · intro hh
    have hp : e.platform.lookup handlerKey = none :=
      wf.platform.lookup_none (C16_keys_side_conditions.2.1 _ handlerKey_runtime)
    have hr : e.runtime.lookup handlerKey = some h := by
      simp [e, step, storeNonCredential, hh, lookup_put]
    rw [C16_precedence, hp, hr]; rfl
  · intro hf
    have hp : e.platform.lookup fnNameKey = some fn := by
      have : fnNameKey ≠ fnVersionKey := by decide
      simp only [e, step, storeNonCredential, hf, if_false]
      split <;> simp [lookup_put, this]
    rw [C16_precedence, hp]; rfl
  · intro hf
    have hp : e.platform.lookup fnVersionKey = some fv := by
      simp [e, step, storeNonCredential, hf, lookup_put]
    rw [C16_precedence, hp]; rfl
  · intro addr ha
    have hp : e.platform.lookup apiKey = some addr := by
      rw [show e.platform.lookup apiKey = e0.platform.lookup apiKey from api_step e0 _ rfl, ha]
    rw [C16_precedence, hp]; rfl

/-- The command-line handler override (`SetHandler`) is delivered as long as no later init call
    carries a non-empty handler, whatever the customer maps contain. -/
theorem C16_handler_override (proc : Layer) (pre : List Op) (hov : String) (cust : Layer)
    (ak sk st fn fv : String) :
    let e := run (newEnvironment proc) (pre ++ [.setHandler hov, .storeFromInit cust "" ak sk st fn fv])
    (runtimeEnv e).lookup handlerKey = some hov := by
  intro e
  have wf : WF e := wf_run (wf_new proc) _
  have hp : e.platform.lookup handlerKey = none :=
    wf.platform.lookup_none (C16_keys_side_conditions.2.1 _ handlerKey_runtime)
  have hr : e.runtime.lookup handlerKey = some hov := by
    simp [e, run, List.foldl_append, step, storeNonCredential, lookup_put]
  rw [C16_precedence, hp, hr]; rfl

/-! ### unshadowed variables arrive unchanged -/

/-- **Unshadowed, by layers.** A key that no reserved layer defines is delivered with the customer
    layer's value (or not at all if the customer did not supply it). -/
theorem C16_unshadowed_unchanged (e : Environment) (k : String)
    (hp : e.platform.lookup k = none) (hr : e.runtime.lookup k = none)
    (hc : e.credentials.lookup k = none) (hu : e.platformUnreserved.lookup k = none) :
    (runtimeEnv e).lookup k = e.customer.lookup k := by
  rw [C16_precedence, hp, hr, hc, hu]
  cases e.customer.lookup k <;> rfl

/-- **Unshadowed, by name.** In every reachable state, a variable of the customer map of the init
    call whose name is in none of the reserved key sets is delivered with exactly the customer's
    value — to the runtime, and (unless its name starts with `_` or is excluded) to extensions. -/
theorem C16_unshadowed_by_name (proc : Layer) (pre : List Op) (cust : Layer)
    (h ak sk st fn fv : String) (k v : String)
    (hk : k ∉ platformKeys ++ runtimeKeys ++ allCredentialKeys ++ platformUnreservedKeys)
    (hv : cust.lookup k = some v) :
    let e := step (run (newEnvironment proc) pre) (.storeFromInit cust h ak sk st fn fv)
    (runtimeEnv e).lookup k = some v ∧
    (agentExcluded k = false → (agentEnv e).lookup k = some v) := by
  intro e
  have wf : WF e := wf_step (wf_run (wf_new proc) pre) _
  simp only [List.mem_append, not_or] at hk
  have h1 := wf.platform.lookup_none hk.1.1.1
  have h2 := wf.runtime.lookup_none hk.1.1.2
  have h3 := wf.credentials.lookup_none hk.1.2
  have h4 := wf.unreserved.lookup_none hk.2
  have hcu : e.customer.lookup k = some v := by
    have := C16_customer_layer (run (newEnvironment proc) pre) (.storeFromInit cust h ak sk st fn fv) k
    simp only [] at this
    rw [show e.customer.lookup k = _ from this, hv]; rfl
  refine ⟨by rw [C16_unshadowed_unchanged e k h1 h2 h3 h4, hcu], ?_⟩
  intro hx
  simp [agentEnv, lookup_exclude, hx, lookup_union, h1, h3, hcu, firstSome]

/-! ### the `KEY=VALUE` wire form -/

/-- **Split at the first `'='`.** For every key without `'='` and EVERY value (with `'='`,
    newlines, empty, …) the cut of `key=value` gives back exactly `(key, value)`. -/
theorem C16_split_eq (k v : String) (hk : '=' ∉ k.toList) : split (k ++ "=" ++ v) = some (k, v) := by
  have : (k ++ "=" ++ v).toList = k.toList ++ '=' :: v.toList := by
    simp [String.toList_append]
  simp [split, this, splitChars_append _ _ hk, String.ofList_toList]

/-- Conversely the cut never invents anything: its result re-assembles to the input and the key
    part is `'='`-free; it fails exactly on strings without `'='`. -/
theorem C16_split_sound (s k v : String) (h : split s = some (k, v)) :
    s = k ++ "=" ++ v ∧ '=' ∉ k.toList := by
  simp only [split] at h
  cases hs : splitChars s.toList with
  | none => simp [hs] at h
  | some kv =>
    obtain ⟨k', v'⟩ := kv
    simp [hs] at h
    obtain ⟨rfl, rfl⟩ := h
    obtain ⟨h1, h2⟩ := splitChars_sound _ _ _ hs
    refine ⟨?_, by simpa [String.toList_ofList] using h2⟩
    apply String.toList_injective
    simp [String.toList_append, String.toList_ofList, h1]

theorem C16_split_none (s : String) : split s = none ↔ '=' ∉ s.toList := by
  rw [← splitChars_none]
  simp only [split]
  cases splitChars s.toList <;> simp

/-- Rendering a map entry by entry as `key=value` and cutting each string again gives the map
    back, if no key contains `'='` (`os.Setenv` refuses such keys). -/
theorem C16_wire_roundtrip (m : Layer) (hk : ∀ p ∈ m, '=' ∉ p.1.toList) :
    (m.map renderKV).filterMap split = m := by
  induction m with
  | nil => rfl
  | cons p m ih =>
    have h1 : split (renderKV p) = some p := C16_split_eq p.1 p.2 (hk p (by simp))
    simp only [List.map_cons, List.filterMap_cons, h1]
    rw [ih fun q hq => hk q (List.mem_cons_of_mem _ hq)]

/-! ### extensions -/

/-- **Extension view.** Nothing whose name starts with `_` or is one of the exclusions; otherwise
    the first defined value among reserved platform, credentials, customer (no runtime variables,
    no unreserved platform defaults). -/
theorem C16_agent_view (e : Environment) (k : String) :
    (agentEnv e).lookup k =
      if underscored k = true ∨ k ∈ extensionExcludedKeys then none
      else firstSome [e.platform.lookup k, e.credentials.lookup k, e.customer.lookup k] := by
  rw [agentEnv, lookup_exclude]
  by_cases h1 : underscored k = true <;> by_cases h2 : k ∈ extensionExcludedKeys <;>
    simp [agentExcluded, h1, h2, lookup_union]

/-- … and no such entry exists in the map at all (not only: is not found by lookup). -/
theorem C16_agent_no_internal (e : Environment) (p : String × String) (hp : p ∈ agentEnv e) :
    underscored p.1 = false ∧ p.1 ∉ extensionExcludedKeys := by
  simp only [agentEnv, exclude, List.mem_filter, agentExcluded] at hp
  have := hp.2
  simp at this
  exact ⟨this.2, this.1⟩

/-- **Same Runtime API address.** After `StoreRuntimeAPIEnvironmentVariable addr`, through every
    later sequence of calls that does not store another address (any customer map containing
    `AWS_LAMBDA_RUNTIME_API`, any init parameters), the runtime and every extension get `addr`. -/
theorem C16_same_api_addr (proc : Layer) (pre post : List Op) (addr : String)
    (hpost : ∀ o ∈ post, o.isStoreAPI = false) :
    let e := run (newEnvironment proc) (pre ++ [.storeRuntimeAPI addr] ++ post)
    (runtimeEnv e).lookup apiKey = some addr ∧ (agentEnv e).lookup apiKey = some addr ∧
      e.platform.lookup apiKey = some addr := by
  intro e
  have hp : e.platform.lookup apiKey = some addr := by
    simp only [e, run, List.foldl_append, List.foldl_cons, List.foldl_nil]
    have := api_run (step (List.foldl step (newEnvironment proc) pre) (.storeRuntimeAPI addr)) post hpost
    simp only [run] at this
    rw [this]
    simp [step, lookup_put]
  refine ⟨by rw [C16_precedence, hp]; rfl, ?_, hp⟩
  rw [C16_agent_view, hp]
  have h1 : underscored apiKey = false := by decide
  have h2 : apiKey ∉ extensionExcludedKeys := by decide
  simp [h1, h2, firstSome]

/-! ### non-vacuity: a customer map colliding with every class -/

private def exProc : Layer := [("TZ", "UTC"), ("AWS_XRAY_DAEMON_ADDRESS", "1.2.3.4:2000"), ("_LAMBDA_SB_ID", "sb")]
private def exCust : Layer :=
  [("_HANDLER", "evil"), ("AWS_ACCESS_KEY_ID", "evil"), ("AWS_LAMBDA_RUNTIME_API", "evil:1"),
   ("AWS_LAMBDA_FUNCTION_NAME", "evil"), ("TZ", "evil"), ("AWS_XRAY_DAEMON_ADDRESS", "evil"),
   ("FOO", "a=b=c\n"), ("EMPTY", ""), ("_PRIVATE", "p"), ("AWS_XRAY_CONTEXT_MISSING", "x")]
private def exOps : List Op :=
  [.setHandler "override", .storeRuntimeAPI "127.0.0.1:9001",
   .storeFromInit exCust "app.handler" "AK" "SK" "ST" "fn" ""]
private def exEnv : Environment := run (newEnvironment exProc) exOps

example : exEnv.ready = true := by decide
example : ["_HANDLER", "AWS_ACCESS_KEY_ID", "AWS_LAMBDA_RUNTIME_API", "AWS_LAMBDA_FUNCTION_NAME", "TZ",
    "AWS_XRAY_DAEMON_ADDRESS", "FOO", "EMPTY", "_PRIVATE", "AWS_LAMBDA_FUNCTION_VERSION"].map
      (fun k => (runtimeEnv exEnv).lookup k) =
    [some "app.handler", some "AK", some "127.0.0.1:9001", some "fn", some "UTC", some "1.2.3.4:2000",
     some "a=b=c\n", some "", some "p", none] := by decide
example : ["_HANDLER", "AWS_ACCESS_KEY_ID", "AWS_LAMBDA_RUNTIME_API", "FOO", "_PRIVATE",
    "AWS_XRAY_CONTEXT_MISSING", "AWS_XRAY_DAEMON_ADDRESS"].map (fun k => (agentEnv exEnv).lookup k) =
    [none, some "AK", some "127.0.0.1:9001", some "a=b=c\n", none, none, some "evil"] := by decide
example : split "FOO=a=b=c\n" = some ("FOO", "a=b=c\n") := C16_split_eq "FOO" "a=b=c\n" (by decide)
example : split "=x" = some ("", "x") := C16_split_eq "" "x" (by decide)
example : split "novalue" = none := (C16_split_none _).2 (by decide)
-- the hypotheses of `C16_unshadowed_by_name` are satisfiable
example : "FOO" ∉ platformKeys ++ runtimeKeys ++ allCredentialKeys ++ platformUnreservedKeys := by decide

end Rie.Props.C16
