import Rie.Model.StateMachines
import Rie.Gen.RuntimeTable
import Rie.Gen.ExtAgentTable
import Rie.Gen.IntAgentTable

/-! (T) obligations: the hand-written state-machine programs reproduce every row of the tables
regenerated from the compiled code (exhaustive over state × call × wake-up state × failing flow
call). Kernel evaluation (`decide +kernel` is kernel reduction, no extra axioms). -/
namespace Rie.Props.Tables
open Rie.SM

theorem gen_rt_matches : (Rie.Gen.rtRowsChunks.all fun ch => ch.all RtRow.matches) = true := by decide +kernel
theorem gen_ext_matches : (Rie.Gen.extRowsChunks.all fun ch => ch.all ExtRow.matches) = true := by decide +kernel
theorem gen_int_matches : (Rie.Gen.intRowsChunks.all fun ch => ch.all IntRow.matches) = true := by decide +kernel

-- the tables are complete: every state × call is present (10×7, 9×(8+6), 6×(8+3) plain rows)
theorem gen_rt_complete : (Rie.Gen.rtRowsChunks.flatten.filter fun r => r.wake.isNone && r.failAt.isNone).length = 70 := by decide +kernel
theorem gen_ext_complete : (Rie.Gen.extRowsChunks.flatten.filter fun r => r.wake.isNone).length = 126 := by decide +kernel
theorem gen_int_complete : (Rie.Gen.intRowsChunks.flatten.filter fun r => r.wake.isNone).length = 66 := by decide +kernel

end Rie.Props.Tables
