import Rie.Proofs.DirectInvoke
import Rie.Proofs.Bucket

/-!
# C17 — Direct-invoke streaming path: stateless parsing, faithful copy, rate bound

> A direct invoke request is validated against the reservation token, and optional headers
> (payload limit, response mode, bandwidth rate and burst) take their defaults whenever absent,
> independently of earlier requests. Response bytes are forwarded in order and unaltered and are
> classified in the trailer as Complete, Oversized (exactly when longer than the per-request
> limit, cut one byte past it) or Truncated (on a copy error or reset). In streaming mode the
> volume forwarded by any time never exceeds burst plus rate times elapsed time, and the copy
> always terminates.

Quantifier: all header combinations and all sequences of requests with and without optional
headers; all payload sizes around the limit and chunkings; all bucket parameters in the allowed
ranges; resets arriving at any point of the copy.

Models: `Rie.DirectInvoke.receive` (= `ReceiveDirectInvoke` writing the four package variables),
`Rie.DirectInvoke.send` (= `SendDirectInvokeResponse`: reads, cancellation, chunking to the bucket
capacity, connection budget, trailer), `Rie.Bucket` (= `bandwidthlimiter.Bucket` + the admission
loop of the throttler). The constants come from `Rie.Gen.DirectConsts`, regenerated from the built
code on every run; what the proofs need from them is re-checked by `decide` (`consts_ok`).

What is NOT claimed: the stale values that `ResponseBandwidthRate`/`ResponseBandwidthBurstSize`
keep after a buffered request (they are re-assigned only in the streaming branch) are real — see
the `example` after `C17_stateless_send` — but nothing on the buffered path reads them.
-/
namespace Rie.Props.C17
open Rie.DirectInvoke Rie.Gen

deriving instance DecidableEq for Except

/-- side conditions on the regenerated constants -/
theorem consts_ok :
    (-1 : Int) ≤ DirectConsts.maxPayloadSize ∧
    1000 ≤ DirectConsts.minResponseBandwidthRate.toNat * DirectConsts.defaultRefillIntervalMs ∧
    0 < DirectConsts.minResponseBandwidthRate ∧
    0 < DirectConsts.minResponseBandwidthBurstSize ∧
    DirectConsts.minResponseBandwidthRate ≤ DirectConsts.responseBandwidthRate ∧
    DirectConsts.responseBandwidthRate ≤ DirectConsts.maxResponseBandwidthRate ∧
    DirectConsts.minResponseBandwidthBurstSize ≤ DirectConsts.responseBandwidthBurstSize ∧
    DirectConsts.responseBandwidthBurstSize ≤ DirectConsts.maxResponseBandwidthBurstSize ∧
    DirectConsts.initInvokeResponseModeStreaming = false ∧
    DirectConsts.initMaxDirectResponseSize = DirectConsts.maxPayloadSize ∧
    DirectConsts.modeBuffered.map lower ≠ DirectConsts.modeStreaming.map lower := by decide

/-! ## parsing -/

/-- **History independence (result).** What `ReceiveDirectInvoke` returns for a request — the
    error, or the payload limit, the response mode and (for a streaming invoke) rate and burst —
    does not depend on the values the package variables had before, i.e. on earlier requests. -/
theorem C17_stateless (g₁ g₂ : Globals) (r : Req) (t : Token) :
    (receive g₁ r t).2 = (receive g₂ r t).2 := by
  unfold receive
  by_cases hc : r.custOk = false
  · simp only [hc, if_true]
  · simp only [hc]
    cases hdrMax r.maxSize with
    | error e => rfl
    | ok n =>
      cases hdrMode r.mode with
      | error e => rfl
      | ok m =>
        simp only
        cases isStreaming n m with
        | true =>
          simp only [if_true]
          cases hdrRate r.rate with
          | error e => rfl
          | ok rate => cases hdrBurst r.burst <;> rfl
        | false =>
          simp only [Bool.false_eq_true, if_false]
          exact tokenChecks_congr _ _ r t (parsedOf_buffered g₁ g₂ n)

/-- **History independence (state the response path reads).** After an accepted request, everything
    `SendDirectInvokeResponse` reads from the package variables (mode, limit, and on the streaming
    path the bucket parameters) is determined by the request alone, and agrees with the returned
    record. -/
theorem C17_stateless_send (g₁ g₂ : Globals) (r : Req) (t : Token) (p : Parsed)
    (h : (receive g₁ r t).2 = .ok p) :
    sendParams (receive g₁ r t).1 = sendParams (receive g₂ r t).1 ∧ parsedOf (receive g₁ r t).1 = p := by
  have h2 : (receive g₂ r t).2 = .ok p := by rw [C17_stateless g₂ g₁]; exact h
  obtain ⟨_, n, m, hm, hmo, hcase⟩ := receive_ok_cases g₁ r t p h
  obtain ⟨_, n', m', hm', hmo', hcase'⟩ := receive_ok_cases g₂ r t p h2
  rw [hm] at hm'; cases hm'
  rw [hmo] at hmo'; cases hmo'
  cases hcase with
  | inl hb =>
    obtain ⟨hst, he⟩ := hb
    cases hcase' with
    | inl hb' =>
      rw [he, hb'.2]
      rw [he] at h
      exact ⟨sendParams_buffered g₁ g₂ n, (tokenChecks_ok _ r t p h).1.symm⟩
    | inr hs' => rw [hst] at hs'; cases hs'.1
  | inr hs =>
    obtain ⟨hst, rate, burst, hr, hb, he⟩ := hs
    cases hcase' with
    | inl hb' => rw [hst] at hb'; cases hb'.1
    | inr hs' =>
      obtain ⟨_, rate', burst', hr', hb', he'⟩ := hs'
      rw [hr] at hr'; cases hr'
      rw [hb] at hb'; cases hb'
      rw [he, he']
      rw [he] at h
      exact ⟨rfl, (tokenChecks_ok _ r t p h).1.symm⟩

/-- The full variable state is *not* history independent: after a buffered request rate and burst
    keep the values of an earlier request (only the streaming branch re-assigns them). -/
example :
    let req : Req := { custOk := true, maxSize := [], mode := [], rate := [], burst := [],
                       id := [1], tok := [2], ver := [3], now := 0 }
    let tok : Token := { id := [1], tok := [2], ver := [3], deadline := 5 }
    (receive { initGlobals with rate := 32768, burst := 32768 } req tok).1 ≠ (receive initGlobals req tok).1 := by
  decide

/-- **History independence over request sequences**: whatever requests came before (and whatever
    the variables held initially), the last request of a sequence is answered the same. -/
theorem C17_stateless_history (g g' : Globals) (h₁ h₂ : List (Req × Token)) (r : Req) (t : Token) :
    (receiveAll g (h₁ ++ [(r, t)])).getLast? = (receiveAll g' (h₂ ++ [(r, t)])).getLast? := by
  have key : ∀ (g : Globals) (h : List (Req × Token)),
      ∃ gl, (receiveAll g (h ++ [(r, t)])).getLast? = some (receive gl r t).2 := by
    intro g h
    induction h generalizing g with
    | nil => exact ⟨g, rfl⟩
    | cons x xs ih =>
      obtain ⟨gl, hgl⟩ := ih (receive g x.1 x.2).1
      refine ⟨gl, ?_⟩
      obtain ⟨xr, xt⟩ := x
      simp only [List.cons_append, receiveAll]
      rw [List.getLast?_cons_of_ne_nil, hgl]
      cases xs <;> simp [receiveAll]
  obtain ⟨a, ha⟩ := key g h₁
  obtain ⟨b, hb⟩ := key g' h₂
  rw [ha, hb, C17_stateless a b]

/-- **Token checks.** When the optional headers are acceptable (`hdr…` all succeed), the request is
    answered by the first failing check in the order invoke id, reservation token, function
    version, deadline — with that specific error and no parsed invoke — and accepted otherwise. -/
theorem C17_token_checks (g : Globals) (r : Req) (t : Token) :
    (r.id ≠ t.id → tokenChecks g r t = .error .invalidInvokeID) ∧
    (r.id = t.id → r.tok ≠ t.tok → tokenChecks g r t = .error .invalidReservationToken) ∧
    (r.id = t.id → r.tok = t.tok → r.ver ≠ t.ver → tokenChecks g r t = .error .invalidFunctionVersion) ∧
    (r.id = t.id → r.tok = t.tok → r.ver = t.ver → r.now > t.deadline →
        tokenChecks g r t = .error .reservationExpired) ∧
    (r.id = t.id → r.tok = t.tok → r.ver = t.ver → r.now ≤ t.deadline →
        tokenChecks g r t = .ok (parsedOf g)) := by
  unfold tokenChecks
  refine ⟨?_, ?_, ?_, ?_, ?_⟩
  · intro h; simp [h]
  · intro h1 h2; simp [h1, h2]
  · intro h1 h2 h3; simp [h1, h2, h3]
  · intro h1 h2 h3 h4; simp [h1, h2, h3, h4]
  · intro h1 h2 h3 h4
    have : ¬ r.now > t.deadline := by omega
    simp [h1, h2, h3, this]

/-- the token checks are reached exactly when the headers are acceptable, with the state the headers
    determine; otherwise the header's specific error is returned -/
theorem C17_receive_shape (g : Globals) (r : Req) (t : Token) :
    (r.custOk = false → (receive g r t).2 = .error .malformedCustomerHeaders) ∧
    (∀ e, r.custOk = true → hdrMax r.maxSize = .error e → (receive g r t).2 = .error e) ∧
    (∀ n e, r.custOk = true → hdrMax r.maxSize = .ok n → hdrMode r.mode = .error e → (receive g r t).2 = .error e) ∧
    (∀ n m, r.custOk = true → hdrMax r.maxSize = .ok n → hdrMode r.mode = .ok m → isStreaming n m = false →
        (receive g r t).2 = tokenChecks { g with maxSize := n, mode := .buffered } r t) ∧
    (∀ n m e, r.custOk = true → hdrMax r.maxSize = .ok n → hdrMode r.mode = .ok m → isStreaming n m = true →
        hdrRate r.rate = .error e → (receive g r t).2 = .error e) ∧
    (∀ n m rate e, r.custOk = true → hdrMax r.maxSize = .ok n → hdrMode r.mode = .ok m → isStreaming n m = true →
        hdrRate r.rate = .ok rate → hdrBurst r.burst = .error e → (receive g r t).2 = .error e) ∧
    (∀ n m rate burst, r.custOk = true → hdrMax r.maxSize = .ok n → hdrMode r.mode = .ok m →
        isStreaming n m = true → hdrRate r.rate = .ok rate → hdrBurst r.burst = .ok burst →
        (receive g r t).2 = tokenChecks { maxSize := n, mode := .streaming, rate := rate, burst := burst } r t) := by
  unfold receive
  refine ⟨?_, ?_, ?_, ?_, ?_, ?_, ?_⟩
  · intro h; simp [h]
  · intro e h1 h2; simp [h1, h2]
  · intro n e h1 h2 h3; simp [h1, h2, h3]
  · intro n m h1 h2 h3 h4; simp [h1, h2, h3, h4]
  · intro n m e h1 h2 h3 h4 h5; simp [h1, h2, h3, h4, h5]
  · intro n m rate e h1 h2 h3 h4 h5 h6; simp [h1, h2, h3, h4, h5, h6]
  · intro n m rate burst h1 h2 h3 h4 h5 h6; simp [h1, h2, h3, h4, h5, h6]

/-- an accepted request matched the token in all three fields and arrived before the deadline -/
theorem C17_accepted_matches (g : Globals) (r : Req) (t : Token) (p : Parsed)
    (h : (receive g r t).2 = .ok p) :
    r.id = t.id ∧ r.tok = t.tok ∧ r.ver = t.ver ∧ r.now ≤ t.deadline := by
  obtain ⟨_, n, m, _, _, hcase⟩ := receive_ok_cases g r t p h
  cases hcase with
  | inl hb => rw [hb.2] at h; exact (tokenChecks_ok _ r t p h).2
  | inr hs =>
    obtain ⟨_, rate, burst, _, _, he⟩ := hs
    rw [he] at h; exact (tokenChecks_ok _ r t p h).2

/-- **Defaults.** In an accepted request an absent header yields the default constant: the limit;
    Buffered mode (unless the limit is the `-1` streaming marker, which forces Streaming); and for a
    streaming invoke the default rate and burst. A present, valid header yields its value. -/
theorem C17_defaults (g : Globals) (r : Req) (t : Token) (p : Parsed)
    (h : (receive g r t).2 = .ok p) :
    (r.maxSize = [] → p.limit = DirectConsts.maxPayloadSize) ∧
    (r.mode = [] → p.limit ≠ -1 → p.mode = .buffered ∧ p.shaping = none) ∧
    (p.limit = -1 → p.mode = .streaming) ∧
    (r.rate = [] → p.mode = .streaming → ∃ b, p.shaping = some (DirectConsts.responseBandwidthRate, b)) ∧
    (r.burst = [] → p.mode = .streaming → ∃ a, p.shaping = some (a, DirectConsts.responseBandwidthBurstSize)) ∧
    hdrMax r.maxSize = .ok p.limit := by
  obtain ⟨_, n, m, hm, hmo, hcase⟩ := receive_ok_cases g r t p h
  cases hcase with
  | inl hb =>
    obtain ⟨hst, he⟩ := hb
    rw [he] at h
    have hp := (tokenChecks_ok _ r t p h).1
    subst hp
    have hn : n ≠ -1 ∧ m = .buffered := by
      unfold isStreaming at hst
      cases m <;> simp_all
    refine ⟨?_, ?_, ?_, ?_, ?_, hm⟩
    · intro h0; exact (hdrMax_ok _ _ hm).1 h0
    · intro _ _; simp [parsedOf]
    · intro h0; exact absurd h0 hn.1
    · intro _ h0; simp [parsedOf] at h0
    · intro _ h0; simp [parsedOf] at h0
  | inr hs =>
    obtain ⟨hst, rate, burst, hr, hb, he⟩ := hs
    rw [he] at h
    have hp := (tokenChecks_ok _ r t p h).1
    subst hp
    refine ⟨?_, ?_, ?_, ?_, ?_, hm⟩
    · intro h0; exact (hdrMax_ok _ _ hm).1 h0
    · intro h0 h1
      simp [hdrMode, h0] at hmo
      subst hmo
      simp [isStreaming, parsedOf] at hst h1
      exact absurd hst h1
    · intro _; simp [parsedOf]
    · intro h0 _
      have := (hdrRanged_ok _ _ _ _ _ _ hr).1 h0
      exact ⟨burst, by simp [parsedOf, this]⟩
    · intro h0 _
      have := (hdrRanged_ok _ _ _ _ _ _ hb).1 h0
      exact ⟨rate, by simp [parsedOf, this]⟩

/-- **Ranges.** A value outside the allowed range (or not a number) is refused with the header's own
    error; an accepted streaming invoke has rate and burst within the allowed ranges and a limit
    `≥ -1`, so the bucket built for it is well formed (`NewBucket` cannot fail). -/
theorem C17_ranges (g : Globals) (r : Req) (t : Token) (p : Parsed)
    (h : (receive g r t).2 = .ok p) :
    -1 ≤ p.limit ∧
    (∀ rate burst, p.shaping = some (rate, burst) →
      DirectConsts.minResponseBandwidthRate ≤ rate ∧ rate ≤ DirectConsts.maxResponseBandwidthRate ∧
      DirectConsts.minResponseBandwidthBurstSize ≤ burst ∧ burst ≤ DirectConsts.maxResponseBandwidthBurstSize) ∧
    (sendParams (receive g r t).1).WF := by
  obtain ⟨hk1, hk2, hk3, hk4, hk5, hk6, hk7, hk8, _⟩ := consts_ok
  obtain ⟨_, n, m, hm, hmo, hcase⟩ := receive_ok_cases g r t p h
  have hl := (hdrMax_ok _ _ hm).2 hk1
  cases hcase with
  | inl hb =>
    obtain ⟨hst, he⟩ := hb
    rw [he] at h ⊢
    have hp := (tokenChecks_ok _ r t p h).1
    subst hp
    refine ⟨hl, ?_, ?_⟩
    · intro rate' burst' hs; simp [parsedOf] at hs
    · refine ⟨by simpa [sendParams] using hl, ?_⟩
      intro hs; simp [sendParams] at hs
  | inr hs =>
    obtain ⟨hst, rate, burst, hr, hb, he⟩ := hs
    rw [he] at h ⊢
    have hp := (tokenChecks_ok _ r t p h).1
    subst hp
    have hrr := (hdrRanged_ok _ _ _ _ _ _ hr).2 hk5 hk6
    have hbb := (hdrRanged_ok _ _ _ _ _ _ hb).2 hk7 hk8
    refine ⟨hl, ?_, ?_⟩
    · intro rate' burst' hs
      simp [parsedOf] at hs
      obtain ⟨h1, h2⟩ := hs
      subst h1; subst h2
      exact ⟨hrr.1, hrr.2, hbb.1, hbb.2⟩
    · refine ⟨by simpa [sendParams] using hl, ?_⟩
      intro _
      refine ⟨burst.toNat, Rie.Bucket.refillOf rate.toNat DirectConsts.defaultRefillIntervalMs,
        by simp [sendParams], by omega, ?_⟩
      unfold Rie.Bucket.refillOf
      apply Nat.div_pos _ (by decide)
      have : DirectConsts.minResponseBandwidthRate.toNat ≤ rate.toNat := by omega
      exact Nat.le_trans hk2 (Nat.mul_le_mul_right _ this)

/-! ## copy and classification -/

/-- **`ChunkIterator`.** For every buffer and every positive chunk size the chunks concatenate to
    the buffer, in order; each chunk is non-empty and at most `cap` long. -/
theorem C17_chunks {α : Type} (p : List α) (cap : Nat) (hc : 0 < cap) :
    (chunks p cap).flatten = p ∧ ∀ c ∈ chunks p cap, c.length ≤ cap ∧ c ≠ [] :=
  ⟨chunks_flatten p cap hc, fun c h => chunks_mem p c cap h⟩

/-- **Faithful copy.** With nothing interfering, the bytes written to the response are exactly the
    payload — for every chunking of the reader, every bucket capacity — cut one byte past the limit
    when the payload is size-restricted (`payload.take (limit+1)`), whether or not the reader ends
    in an error. -/
theorem C17_forward_exact (p : SendParams) (src : Src) (h : p.WF) :
    (send p src Env.quiet).forwarded =
      (if p.restricted then src.payload.take (p.maxSize + 1).toNat else src.payload) := by
  rw [send_forwarded_quiet p src h]
  unfold fullForward SendParams.lim
  by_cases hr : p.restricted = true <;> simp [hr]

/-- … and under any interference (reset at any read, connection failing after any number of bytes)
    what was written is a prefix of that: bytes are never altered, reordered or invented; if the
    copy reported no error, nothing is missing. -/
theorem C17_forward_prefix (p : SendParams) (src : Src) (env : Env) (h : p.WF) :
    (send p src env).forwarded <+: (send p src Env.quiet).forwarded ∧
    ((send p src env).copyErr = false → (send p src env).forwarded = (send p src Env.quiet).forwarded) := by
  rw [send_forwarded_quiet p src h]
  exact ⟨send_forwarded_prefix p src env h, send_forwarded_noerr p src env h⟩

/-- the individual writes on the streaming path never exceed the bucket capacity -/
theorem C17_writes_le_capacity (p : SendParams) (src : Src) (cap refill : Nat)
    (hm : p.mode = .streaming) (hs : p.shaping = some (cap, refill)) :
    ∀ w ∈ (send p src Env.quiet).writes, w.length ≤ cap := by
  intro w hw
  unfold send at hw
  simp only [applyReset_quiet] at hw
  change w ∈ (applyBudget Env.quiet (splitWrites p _)).1 at hw
  unfold applyBudget Env.quiet splitWrites at hw
  simp only [hm, hs] at hw
  exact (flatMap_chunks_mem _ _ _ hw).1

/-- **Classification.** For every payload, chunking and interference:
    Truncated ⇔ the copy failed (read error seen, reset before the last data was written, or the
    connection broke); Oversized ⇔ the copy did not fail and the payload is size-restricted and
    longer than the limit; Complete ⇔ the copy did not fail and the payload is within the limit (or
    unrestricted). -/
theorem C17_classify (p : SendParams) (src : Src) (env : Env) (h : p.WF) :
    let o := send p src env
    (o.trailer = .truncated ↔ o.copyErr = true) ∧
    (o.trailer = .oversized ↔ o.copyErr = false ∧ p.restricted = true ∧ (src.payload.length : Int) > p.maxSize) ∧
    (o.trailer = .complete ↔ o.copyErr = false ∧ (p.restricted = false ∨ (src.payload.length : Int) ≤ p.maxSize)) := by
  intro o
  have htr : o.trailer = classify p o.copyErr o.forwarded.length := send_trailer p src env
  cases he : o.copyErr with
  | true =>
    have : o.trailer = .truncated := by rw [htr, he]; rfl
    simp [this]
  | false =>
    have hf := send_forwarded_noerr p src env h he
    have hlen : o.forwarded.length = (fullForward p src).length := by rw [← hf]
    rw [htr, he, hlen]
    unfold classify fullForward SendParams.lim SendParams.restricted
    have hwf := h.1
    cases hm : p.mode with
    | buffered =>
      simp only [beq_self_eq_true, Bool.true_or, if_true, Bool.false_eq_true, if_false, List.length_take]
      refine ⟨by split <;> simp, ?_, ?_⟩
      · split
        · rename_i hh; simp only [true_and, true_iff]; omega
        · rename_i hh; simp only [reduceCtorEq, false_iff, true_and]; omega
      · split
        · rename_i hh; simp only [reduceCtorEq, false_iff, true_and, false_or]; omega
        · rename_i hh; simp only [true_and, true_iff]; omega
    | streaming =>
      by_cases hx : p.maxSize = -1
      · simp [hx]
      · have hb : (p.maxSize != -1) = true := by simpa using hx
        simp only [hb, Bool.or_true, if_true, Bool.false_eq_true, if_false, List.length_take]
        refine ⟨by split <;> simp, ?_, ?_⟩
        · split
          · rename_i hh; simp only [true_and, true_iff]; omega
          · rename_i hh; simp only [reduceCtorEq, false_iff, true_and]; omega
        · split
          · rename_i hh; simp only [reduceCtorEq, false_iff, true_and, false_or]; omega
          · rename_i hh; simp only [true_and, true_iff]; omega

/-- **Classification when nothing interferes** (the statement of the property): the copy fails only
    if the reader fails within the limit, hence Oversized ⇔ longer than the limit; Complete ⇔ within
    the limit and no copy error; Truncated ⇔ copy error. -/
theorem C17_classify_quiet (p : SendParams) (src : Src) (h : p.WF) (hr : p.restricted = true) :
    let o := send p src Env.quiet
    (o.copyErr = true ↔ src.fail = true ∧ (src.payload.length : Int) ≤ p.maxSize) ∧
    (o.trailer = .oversized ↔ (src.payload.length : Int) > p.maxSize) ∧
    (o.trailer = .complete ↔ (src.payload.length : Int) ≤ p.maxSize ∧ src.fail = false) ∧
    (o.trailer = .truncated ↔ (src.payload.length : Int) ≤ p.maxSize ∧ src.fail = true) := by
  intro o
  obtain ⟨c1, c2, c3⟩ := C17_classify p src Env.quiet h
  have he : o.copyErr = (src.fail && decide (src.payload.length < (p.maxSize + 1).toNat)) := by
    show (send p src Env.quiet).copyErr = _
    rw [send_copyErr_quiet, reads_err]
    unfold SendParams.lim
    rw [if_pos hr]
  have hwf := h.1
  have herr : o.copyErr = true ↔ src.fail = true ∧ (src.payload.length : Int) ≤ p.maxSize := by
    rw [he]; simp only [Bool.and_eq_true, decide_eq_true_eq]
    constructor <;> (intro ⟨a, b⟩; exact ⟨a, by omega⟩)
  refine ⟨herr, ?_, ?_, ?_⟩
  · rw [c2]
    constructor
    · intro ⟨_, _, hh⟩; exact hh
    · intro hh
      refine ⟨?_, hr, hh⟩
      cases hce : o.copyErr with
      | false => rfl
      | true => have := (herr.mp hce).2; omega
  · rw [c3]
    constructor
    · intro ⟨hce, hh⟩
      cases hh with
      | inl hh => rw [hr] at hh; cases hh
      | inr hh =>
        refine ⟨hh, ?_⟩
        cases hf : src.fail with
        | false => rfl
        | true => have := herr.mpr ⟨hf, hh⟩; rw [hce] at this; cases this
    · intro ⟨hh, hf⟩
      refine ⟨?_, Or.inr hh⟩
      cases hce : o.copyErr with
      | false => rfl
      | true => have := (herr.mp hce).1; rw [hf] at this; cases this
  · rw [c1, herr]
    constructor <;> (intro ⟨a, b⟩; exact ⟨b, a⟩)

/-- **Truncated ⇔ copy error ∨ reset ∨ broken connection**, spelled out. -/
theorem C17_truncated_iff (p : SendParams) (src : Src) (env : Env) :
    (send p src env).trailer = .truncated ↔
      ((reads p src).2 = true ∨
       (applyReset p env (reads p src).1).2 = true ∨
       (applyBudget env (splitWrites p (applyReset p env (reads p src).1).1)).2 = true) := by
  rw [send_trailer]
  unfold classify
  have : (send p src env).copyErr = ((reads p src).2 || (applyReset p env (reads p src).1).2 ||
      (applyBudget env (splitWrites p (applyReset p env (reads p src).1).1)).2) := rfl
  rw [this]
  cases (reads p src).2 <;> cases (applyReset p env (reads p src).1).2 <;>
    cases (applyBudget env (splitWrites p (applyReset p env (reads p src).1).1)).2 <;> simp <;>
    (cases p.mode <;> simp <;> split <;> simp)

/-- a reset truncates exactly when it arrives before the copy's last data-carrying read (streaming) -/
theorem C17_reset_iff (p : SendParams) (env : Env) (rs : List Bytes) :
    (applyReset p env rs).2 = true ↔ p.mode = .streaming ∧ ∃ j, env.resetAt = some j ∧ j < rs.length := by
  unfold applyReset
  split
  · rename_i j hm hr
    split
    · rename_i hj; simp only [true_iff]; exact ⟨hm, j, hr, hj⟩
    · rename_i hj
      simp only [Bool.false_eq_true, false_iff]
      intro ⟨_, j', hj', hlt⟩
      rw [hr] at hj'; cases hj'; exact hj hlt
  · rename_i hne
    simp only [Bool.false_eq_true, false_iff]
    intro ⟨hm, j, hj, _⟩
    exact hne j hm hj

/-! ## rate bound and progress -/

open Rie.Bucket in
/-- **Rate bound (inductive invariant).** For EVERY schedule of ticks and admission attempts, from a
    full or partially filled well-formed bucket: bytes admitted ≤ capacity + ticks · refill. -/
theorem C17_rate_bound (capacity tokens refill : Nat) (ops : List Op) (ht : tokens ≤ capacity) :
    let s := run (init capacity tokens refill) ops
    s.consumed ≤ capacity + s.ticks * refill ∧ s.consumed + s.b.tokens ≤ tokens + s.ticks * refill := by
  intro s
  have hs : s = run (init capacity tokens refill) ops := rfl
  clear_value s
  subst hs
  have h := run_potential (init capacity tokens refill) ops
  have ht' := run_ticks (init capacity tokens refill) ops
  have e1 : (init capacity tokens refill).consumed = 0 := rfl
  have e2 : (init capacity tokens refill).b.tokens = tokens := rfl
  have e3 : (init capacity tokens refill).b.refill = refill := rfl
  have e4 : (init capacity tokens refill).ticks = 0 := rfl
  rw [e1, e2, e3] at h
  rw [e4, Nat.zero_add] at ht'
  rw [ht']
  omega

open Rie.Bucket in
/-- **Rate bound over every window**: in any continuation `post` of any history `pre`, the bytes
    admitted during `post` are at most capacity + (ticks during `post`) · refill — the burst after an
    idle period is bounded by the capacity, however long the idle period was. -/
theorem C17_rate_window (s₀ : St) (pre post : List Op) (h : s₀.b.WF) :
    (run s₀ (pre ++ post)).consumed - (run s₀ pre).consumed ≤
      s₀.b.capacity + tickCount post * s₀.b.refill := by
  rw [run_append]
  have hp := run_potential (run s₀ pre) post
  have hw := (run_wf s₀ pre h).2.2
  rw [run_refill, run_capacity] at *
  omega

open Rie.Bucket in
/-- **… in time**: with `refill = rate · 125 / 1000` and a tick every 125 ms,
    `1000 · bytes ≤ 1000 · burst + rate · elapsed_ms`, i.e. bytes ≤ burst + rate · elapsed. -/
theorem C17_rate_time (burst rate : Nat) (ops : List Op) :
    let s := run (init burst burst (refillOf rate DirectConsts.defaultRefillIntervalMs)) ops
    s.consumed * 1000 ≤ burst * 1000 + rate * (s.ticks * DirectConsts.defaultRefillIntervalMs) := by
  intro s
  have h : s.consumed ≤ burst + s.ticks * refillOf rate DirectConsts.defaultRefillIntervalMs :=
    (C17_rate_bound burst burst (refillOf rate DirectConsts.defaultRefillIntervalMs) ops (Nat.le_refl _)).1
  clear_value s
  have hr := refillOf_le rate DirectConsts.defaultRefillIntervalMs
  have h2 : s.ticks * refillOf rate DirectConsts.defaultRefillIntervalMs * 1000 ≤
      rate * (s.ticks * DirectConsts.defaultRefillIntervalMs) := by
    rw [Nat.mul_assoc, Nat.mul_left_comm rate]
    exact Nat.mul_le_mul_left _ hr
  have h3 : s.consumed * 1000 ≤ (burst + s.ticks * refillOf rate DirectConsts.defaultRefillIntervalMs) * 1000 :=
    Nat.mul_le_mul_right _ h
  rw [Nat.add_mul] at h3
  exact Nat.le_trans h3 (Nat.add_le_add_left h2 _)

open Rie.Bucket in
/-- **Progress.** A buffer of at most `capacity` bytes is admitted after exactly
    `⌈(n − tokens)/refill⌉` ticks (not earlier, and at that tick for sure); larger buffers are
    refused up front (the writer never offers one: `C17_writes_le_capacity`). -/
theorem C17_progress (b : Bucket) (n : Nat) (h : b.WF) (hn : n ≤ b.capacity) :
    (consume (produceN (ticksNeeded b n) b) n).2 = true ∧
    (∀ j, j < ticksNeeded b n → (consume (produceN j b) n).2 = false) ∧
    ticksNeeded b n ≤ (n + b.refill - 1) / b.refill :=
  ⟨admitted_after b n h hn, fun j hj => not_admitted_before b n j h hj, ticksNeeded_le b n⟩

open Rie.Bucket in
/-- **The copy terminates**: any sequence of buffers, each at most `capacity`, is admitted completely
    within `Σ ⌈nᵢ/refill⌉` ticks. -/
theorem C17_copy_terminates (b : Bucket) (ns : List Nat) (h : b.WF) (hn : ∀ n ∈ ns, n ≤ b.capacity) :
    ∃ k b', admitAll b ns = some (k, b') ∧ k ≤ tickBudget b.refill ns :=
  let ⟨k, b', h1, h2, _⟩ := admitAll_terminates b ns h hn
  ⟨k, b', h1, h2⟩

/-! ### non-vacuity -/

section examples
open Rie.Bucket

private def tok0 : Token := { id := [1], tok := [2], ver := [3], deadline := 5 }
private def req0 : Req := { custOk := true, maxSize := [], mode := [], rate := [], burst := [],
                            id := [1], tok := [2], ver := [3], now := 0 }
private def streamingHdr : Bytes := [0x73, 0x54, 0x52, 0x45, 0x41, 0x4D, 0x49, 0x4E, 0x47]  -- "sTREAMING"

-- defaults, after any junk in the variables
example : (receive { maxSize := 7, mode := .streaming, rate := 1, burst := 2 } req0 tok0).2
    = .ok { limit := DirectConsts.maxPayloadSize, mode := .buffered, shaping := none } := by decide
-- case-insensitive mode; default rate and burst
example : (receive initGlobals { req0 with mode := streamingHdr } tok0).2
    = .ok { limit := DirectConsts.maxPayloadSize, mode := .streaming,
            shaping := some (DirectConsts.responseBandwidthRate, DirectConsts.responseBandwidthBurstSize) } := by decide
-- "-1" = streaming marker; "ſtreaming" folds to "streaming"
example : ((receive initGlobals { req0 with maxSize := [0x2D, 0x31] } tok0).2.toOption.map (·.mode)) = some .streaming := by decide
example : parseMode [0xC5, 0xBF, 0x74, 0x72, 0x65, 0x61, 0x6D, 0x69, 0x6E, 0x67] = some .streaming := by decide
-- refusals
example : (receive initGlobals { req0 with maxSize := [0x2D, 0x32] } tok0).2 = .error .invalidMaxPayloadSize := by decide
example : (receive initGlobals { req0 with mode := streamingHdr, rate := [0x31] } tok0).2 = .error .invalidResponseBandwidthRate := by decide
example : (receive initGlobals { req0 with tok := [9] } tok0).2 = .error .invalidReservationToken := by decide
example : (receive initGlobals { req0 with now := 6 } tok0).2 = .error .reservationExpired := by decide
-- rate is ignored (not even validated) for a buffered invoke: this is what the code does
example : (receive initGlobals { req0 with rate := [0x31] } tok0).2.toOption.isSome = true := by decide

private def p3 : SendParams := { mode := .buffered, maxSize := 3, shaping := none }
private def pS : SendParams := { mode := .streaming, maxSize := 3, shaping := some (2, 1) }
-- exactly at the limit: complete; one byte more: oversized and cut at limit+1
example : send p3 { chunks := [[1, 2], [3]], fail := false } {} =
    { writes := [[1, 2], [3]], copyErr := false, trailer := .complete } := by decide
example : send p3 { chunks := [[1, 2], [3, 4, 5, 6]], fail := false } {} =
    { writes := [[1, 2], [3, 4]], copyErr := false, trailer := .oversized } := by decide
-- a read error beyond limit+1 is never seen; one within the limit truncates
example : (send p3 { chunks := [[1, 2, 3, 4]], fail := true } {}).trailer = .oversized := by decide
example : (send p3 { chunks := [[1, 2, 3]], fail := true } {}).trailer = .truncated := by decide
-- streaming: writes are cut to the capacity; a reset during the 2nd read loses that read's data
example : send pS { chunks := [[1, 2, 3]], fail := false } {} =
    { writes := [[1, 2], [3]], copyErr := false, trailer := .complete } := by decide
example : send pS { chunks := [[1], [2], [3]], fail := false } { resetAt := some 1 } =
    { writes := [[1]], copyErr := true, trailer := .truncated } := by decide
example : p3.WF ∧ pS.WF := by
  refine ⟨⟨by decide, by intro h; cases h⟩, ⟨by decide, fun _ => ⟨2, 1, rfl, by decide, by decide⟩⟩⟩

-- bucket: a burst of `capacity`, then `refill` per tick; 10 bytes need ⌈(10−2)/3⌉ = 3 ticks
example : (run (init 10 10 3) [.consume 8, .consume 10, .tick, .tick, .tick, .consume 10, .consume 1]).consumed = 18 := by decide
example : ticksNeeded { capacity := 10, tokens := 2, refill := 3 } 10 = 3 := by decide
example : admitAll { capacity := 10, tokens := 10, refill := 3 } [10, 10, 4] = some (6, { capacity := 10, tokens := 2, refill := 3 }) := by decide

end examples

end Rie.Props.C17
