import Rie.Proofs.Sys
import Rie.Proofs.SysAgents
import Rie.Proofs.SysSerial
import Rie.Props.Tables
import Rie.Props.RoutesTable

/-!
# C13 — Extensions API: registration rules and lifecycle automaton

> Extension names are unique across internal and external extensions, at most ten extensions
> exist, only INVOKE and SHUTDOWN may be subscribed (SHUTDOWN only by external extensions), and
> every call after register must carry a known identifier. Each extension follows register,
> next, next ... with an init error report allowed only between register and its first next and
> an exit error report any time after register, both final; every other call is refused with 403
> and the documented error type and changes neither that extension's state nor any barrier
> count. Registration data returned (function name, version, handler, optional account id) equals
> what the platform was initialised with.

Model: agent programs `Rie.SM.extProg` / `intProg` (tied exhaustively by the regenerated tables,
`gen_ext_matches`, `gen_int_matches`) and the handlers `agRegister`, `agNext`, `agReport` in
`Rie.Sys` (agentregister.go, agentnext.go, agentiniterror.go, agentexiterror.go, the identifier
middleware, registrations.go). Tie: stackdrv family `misuse` (every call, bad/missing/unknown
identifiers, bad bodies, name collisions, limit) + the register response fields are checked by
the harness against the init parameters (`meta=ok`).
-/
namespace Rie.Props.C13
open Rie.Sys Rie.SM

/-- **Events.** External extensions may subscribe exactly INVOKE and SHUTDOWN, internal ones
    exactly INVOKE. -/
theorem C13_events (e : Ev) :
    (validExt e = .ok ↔ (e = .invoke ∨ e = .shutdown)) ∧ (validInt e = .ok ↔ e = .invoke) := by
  cases e <;> simp [validExt, validInt]

/-- a register with a forbidden event is refused (InvalidEventType) and changes nothing -/
theorem C13_bad_event_inert (s : State) (name : String) (es : List Ev) (a : Agent)
    (ha : s.agents.find? (fun a => a.ext && a.name == name) = some a) (hbad : validEvents true es = false) :
    agRegister s name es "" = reply s name "register" "403,Extension.InvalidEventType" := by
  simp [agRegister, ha, hbad]

/-- **Lifecycle of an external extension**: the complete list of transitions that are not refused. -/
theorem C13_lifecycle_ext (st : ExtState) :
    (∀ es, (extProg st (.register es)).isSome = (st == .started)) ∧
    (extProg st .ready).isSome = (st == .registered || st == .running) ∧
    (extProg st .initError).isSome = (st == .registered || st == .initError) ∧
    (extProg st .exitError).isSome = (st == .registered || st == .ready || st == .running || st == .exitError) := by
  cases st <;> simp [extProg]

/-- … and of an internal one -/
theorem C13_lifecycle_int (st : IntState) :
    (∀ es, (intProg st (.register es)).isSome = (st == .started)) ∧
    (intProg st .ready).isSome = (st == .registered || st == .running) ∧
    (intProg st .initError).isSome = (st == .registered || st == .initError) ∧
    (intProg st .exitError).isSome = (st == .registered || st == .ready || st == .running || st == .exitError) := by
  cases st <;> simp [intProg]

/-- the error reports are final: from InitError / ExitError nothing but the idempotent repetition -/
theorem C13_reports_final (c : AgCall) :
    (extProg .initError c).isSome = (c == .initError) ∧ (extProg .exitError c).isSome = (c == .exitError) := by
  cases c <;> simp [extProg]

/-- **Identifier.** Missing, malformed and unknown identifiers are refused with the three documented
    types before any state is touched. -/
theorem C13_identifier (s : State) (name : String) :
    agNext s name "noid" = reply s name "next" "403,Extension.MissingExtensionIdentifier" ∧
    agNext s name "badid" = reply s name "next" "403,Extension.InvalidExtensionIdentifier" ∧
    agNext s name "unknownid" = reply s name "next" "403,Extension.UnknownExtensionIdentifier" ∧
    (∀ call et, agReport s name call et "noid" = reply s name call "403,Extension.MissingExtensionIdentifier") := by
  simp [agNext, agReport, resolveId]

/-- **A refused next / report changes nothing** — neither the extension's state nor any barrier. -/
theorem C13_refusal_inert (s : State) (name : String) (a : Agent) (hid : resolveId s name "" = .ok a) :
    (agProg a .ready = none → agNext s name "" = reply s name "next" "403,Extension.InvalidExtensionState") ∧
    (∀ et, et ≠ "notype" → agProg a .initError = none →
        agReport s name "initerror" et "" = reply s name "initerror" "403,Extension.InvalidExtensionState") ∧
    (∀ et, et ≠ "notype" → agProg a .exitError = none →
        agReport s name "exiterror" et "" = reply s name "exiterror" "403,Extension.InvalidExtensionState") := by
  refine ⟨?_, ?_, ?_⟩
  · intro h; simp [agNext, hid, h]
  · intro et het h
    have : (et == "notype") = false := by simpa using het
    simp [agReport, hid, this, h]
  · intro et het h
    have : (et == "notype") = false := by simpa using het
    simp [agReport, hid, this, h]

/-- **Limit and closing.** A new (internal) registration is refused without effect when registration
    is closed (the first invocation has been delivered: `TurnOff` precedes it) or ten extensions exist. -/
theorem C13_limit_and_closed (s : State) (name : String) (es : List Ev)
    (hnew : s.agents.find? (fun a => a.ext && a.name == name) = none) (hev : validEvents false es = true) :
    (s.regOn = false → agRegister s name es "" = reply s name "register" "403,Extension.RegistrationClosed") ∧
    (s.regOn = true → s.agents.length ≥ maxAgents →
        agRegister s name es "" = reply s name "register" "403,Extension.TooManyExtensions") ∧
    (s.regOn = true → s.agents.length < maxAgents → (findAgent s name).isSome = true →
        agRegister s name es "" = reply s name "register" "403,Extension.InvalidExtensionState") := by
  refine ⟨?_, ?_, ?_⟩
  · intro h; simp [agRegister, hnew, hev, h]
  · intro h hl
    have : ¬ (s.agents.length < maxAgents) := by omega
    simp [agRegister, hnew, hev, h, hl]
  · intro h hl hd
    have : ¬ (s.agents.length ≥ maxAgents) := by omega
    simp [agRegister, hnew, hev, h, this, hd]

theorem C13_limit_is_ten : maxAgents = Rie.Gen.maxAgentsAllowed ∧ maxAgents = 10 := ⟨maxAgents_gen, rfl⟩

/-- **Names unique, at most ten — whole runs.** From any initial configuration without agents, after
    any sequence of ops (registrations of any names and event sets, with any malformed variants; next /
    error reports; invocations; exits; resets; shutdowns; timers) under any scheduler choices: the
    names of the agents that exist — external and internal together — are pairwise distinct, and at
    most ten of them were not refused at launch (an eleventh extension *file* is launched, marked
    `LaunchError` and fails the init: that is the code, `rapid/handlers.go` checks the limit after
    `CreateExternalAgent`). Invariant `Rie.Sys.AInv` proved for every model function
    (`Rie/Proofs/SysAgents.lean`); the table fact used is that no legal call other than `launchError`
    starts from or leads to `LaunchError` (`agProg_noLE`). -/
theorem C13_unique_and_bounded (s0 : State) (h0 : s0.agents = []) (ops : List (Nat × Op)) :
    let s := (run s0 [] ops).1
    (s.agents.map (·.name)).Nodup ∧ (s.agents.filter (fun a => a.st != .launchError)).length ≤ 10 := by
  have i : AInv (run s0 [] ops).1 := ainv_run s0 [] ops (by show AInvL s0.agents; rw [h0]; exact ⟨by simp, by simp⟩)
  exact ⟨i.nodup, i.bound⟩

-- non-vacuity: eleven extension files: ten are launched as usual, the eleventh is refused at launch
example :
    let s0 : State := { extFiles := ["a", "b", "c", "d", "e", "f", "g", "h", "i", "j", "k"] }
    let s := (run s0 [] [(0, .init)]).1
    s.agents.length = 11 ∧ (s.agents.filter (fun a => a.st != .launchError)).length = 10 := by decide +kernel

-- non-vacuity: a registration after the first delivery is refused and leaves the state as it was
example :
    let s := step 0 (step 0 {} (.invoke 0 5 "h")) .rtNext
    s.regOn = false ∧ (step 0 s (.register "late" [.invoke] "")).outs = ["late.register=403,Extension.RegistrationClosed"] ∧
      (step 0 s (.register "late" [.invoke] "")).core = s.core := by decide


/-- **An identifier designates at most one extension — whole runs.** From any initial configuration
    without agents, after any sequence of ops under any scheduler choices, the identities (serial
    numbers, the model's stand-in for the UUIDs `Lambda-Extension-Identifier` carries) of the existing
    agents are pairwise distinct and were all issued already (`< nextSerial`). Invariant
    `Rie.Sys.SInv`, `Rie/Proofs/SysSerial.lean`. -/
theorem C13_identifiers_unique (s0 : State) (h0 : s0.agents = []) (ops : List (Nat × Op)) :
    let s := (run s0 [] ops).1
    (s.agents.map (·.serial)).Nodup ∧ ∀ a ∈ s.agents, a.serial < s.nextSerial := by
  have hA : AInv s0 := by show AInvL s0.agents; rw [h0]; exact ⟨by simp, by simp⟩
  have hS : SInv [] s0 := by
    show SInvL [] (serl s0.agents) s0.nextSerial
    rw [h0]; exact ⟨by simp [serl], by simp [serl], by simp⟩
  have i := sinv_run s0 [] ops hA hS
  exact ⟨i.nodup, fun a ha => i.lt a.serial (List.mem_map_of_mem ha)⟩

/-- **An identifier of an earlier generation is never known again — whole runs.** Let `s1` be any
    reachable state and `k` an identifier that has been issued (`k < nextSerial`) but designates no
    agent of `s1` — after a reset that is every identifier issued so far (`C13_reset_kills_identifiers`).
    Then after ANY further ops, under any scheduler choices, `k` still designates no agent: a `next`,
    init-error or exit-error call carrying it is answered 403 `Extension.UnknownExtensionIdentifier`
    and changes nothing but the answer (`C13_stale_identifier_refused`). -/
theorem C13_stale_identifier (s0 : State) (h0 : s0.agents = []) (ops1 ops2 : List (Nat × Op)) (k : Nat) (H : List Nat) :
    let s1 := (run s0 [] ops1).1
    k < s1.nextSerial → (∀ a ∈ s1.agents, a.serial ≠ k) →
    findAgentBySerial (run s1 H ops2).1 k = none := by
  intro s1 hk hdead
  have hA0 : AInv s0 := by show AInvL s0.agents; rw [h0]; exact ⟨by simp, by simp⟩
  have hS0 : SInv [] s0 := by
    show SInvL [] (serl s0.agents) s0.nextSerial
    rw [h0]; exact ⟨by simp [serl], by simp [serl], by simp⟩
  have hA1 : AInv s1 := ainv_run s0 [] ops1 hA0
  have hS1 : SInv [] s1 := sinv_run s0 [] ops1 hA0 hS0
  have hS1k : SInv [k] s1 := ⟨hS1.lt, hS1.nodup, by
    intro k' hk'
    have : k' = k := by simpa using hk'
    subst this
    exact ⟨hk, by intro hm; obtain ⟨a, ha, he⟩ := List.mem_map.mp hm; exact hdead a ha he⟩⟩
  have i := sinv_run s1 H ops2 hA1 hS1k
  have hnot := (i.dead k (by simp)).2
  unfold findAgentBySerial
  rw [List.find?_eq_none]
  intro a ha hak
  exact hnot (List.mem_map.mpr ⟨a, ha, by simpa using hak⟩)

/-- the reset leaves no agent: every identifier issued before it is dead afterwards -/
theorem C13_reset_kills_identifiers (s : State) (n : Nat) : (afterReset s n).agents = [] ∧ (afterReset s n).nextSerial = s.nextSerial := by
  simp [afterReset]

/-- a call carrying an identifier that designates no agent is refused with 403
    `Extension.UnknownExtensionIdentifier`, and the refusal is nothing but that answer -/
theorem C13_stale_identifier_refused (s : State) (name : String) (k : Nat) (hid : s.ids.lookup name = some k)
    (hdead : findAgentBySerial s k = none) :
    agNext s name "" = reply s name "next" "403,Extension.UnknownExtensionIdentifier" ∧
    (∀ call et, et ≠ "notype" → agReport s name call et "" = reply s name call "403,Extension.UnknownExtensionIdentifier") := by
  have hr : resolveId s name "" = .error "403,Extension.UnknownExtensionIdentifier" := by
    simp [resolveId, hid, hdead]
  refine ⟨by simp [agNext, hr], ?_⟩
  intro call et hne
  simp [agReport, hr]

-- non-vacuity: an extension registers (identifier 1), the runtime dies, the environment is reset;
-- the next invocation re-launches the extension: the old identifier is refused, re-registration
-- issues identifier 2, the old one stays refused
example :
    let s0 : State := { extFiles := ["a"] }
    let s1 := (run s0 [] [(0, .invoke 0 5 "h"), (0, .register "a" [.invoke, .shutdown] ""), (0, .agNext "a" ""), (0, .rtNext),
                          (0, .exit "runtime" "code1" false), (0, .agNext "a" ""), (0, .exit "a" "code0" true),
                          (0, .timer (.resetTail 2)), (0, .invoke 1 5 "h")]).1
    s1.agents.map (·.serial) = [2] ∧ s1.ids.lookup "a" = some 1 ∧
    (step 0 s1 (.agNext "a" "")).outs = ["a.next=403,Extension.UnknownExtensionIdentifier"] := by decide +kernel

/-- **Every call after register must carry an identifier — in the source.** In the route table read
    from `lambda/rapi/router.go` on every run, every Extensions-API route except `register` (which
    issues the identifier), and the telemetry subscription routes, are registered behind
    `middleware.AgentUniqueIdentifierHeaderValidator` (header present and a UUID, else 403 Missing /
    Invalid identifier before the handler runs); `register` is not. -/
theorem C13_identifier_validator_in_source :
    (Rie.Gen.routes.filter (·.2.2.2 == "agentid")).map (fun r => (r.1, r.2.1)) =
      [("GET", "/2020-01-01/extension/event/next"), ("POST", "/2020-01-01/extension/init/error"),
       ("POST", "/2020-01-01/extension/exit/error"), ("PUT", "/2020-08-15/logs"), ("PUT", "/2022-07-01/telemetry")] ∧
    ("POST", "/2020-01-01/extension/register", "", "") ∈ Rie.Gen.routes := by
  rw [RoutesTable.gen_routes_match]; decide

end Rie.Props.C13
