import Rie.Proofs.Sys
import Rie.Proofs.SysEvents

/-!
# C15 — Platform lifecycle events form a well-nested, truthful trace

> Each initialisation emits one init-start, then one status line per known extension and at most
> one init-runtime-done, then exactly one init-report, tagged with whether it ran as the first init
> or inside an invocation; each dispatched invocation emits exactly one start and at most one
> runtime-done after it. A success status appears only if that step really succeeded (the runtime
> reached its next poll, respectively posted its response and returned to next), an error status
> carries the type of the first fault, and the extension status lines report each extension's true
> state and subscriptions.

Model: the event emissions of `startInit`, `initTailEvents` (the deferred calls of
doRuntimeDomainInit in their LIFO order), `continueInvoke`, `orchResume`, `startHandler` (reset
with reason timeout/failure). Tie: a recording EventsAPI in every stackdrv family; every `ev …`
entry is compared with the model; monitor `mon_events` (counts and truthfulness, model-free).
-/
namespace Rie.Props.C15
open Rie.Sys Rie.SM

theorem foldl_emit_out (l : List Agent) (f : Agent → String) (s : State) :
    (l.foldl (fun s a => s.emit (f a)) s).outs = s.outs ++ l.map f := by
  induction l generalizing s with
  | nil => simp
  | cons a l ih => simp only [List.foldl_cons, ih, emit_outs, List.map_cons, List.append_assoc, List.singleton_append]

/-- **Shape of an init's tail.** Whatever the result, finishing an init emits, in this order: at most
    one init-runtime-done (exactly when the runtime had been started), one line per extension in
    the registration maps with its current state / subscriptions / error type, then exactly one
    init-report — all tagged with the phase (`init` or `invoke`) the init ran in. -/
theorem C15_init_tail (s : State) (ph : Phase) (status : String) :
    (initTailEvents s ph status).outs =
      s.outs ++ (if s.rtDoneReg then [Out.str (.ev .initRuntimeDone s!"{ph.str}:{status}:{if status == "success" then "-" else s.fatal.getD "Runtime.Unknown"}")] else [])
            ++ ((s.agents.filter (·.ext)) ++ (s.agents.filter (!·.ext))).map agentInfoLine
            ++ [Out.str (.ev .initReport ph.str)] := by
  unfold initTailEvents
  by_cases h : s.rtDoneReg = true
  · simp only [h, ↓reduceIte, emitEv_outs, foldl_emit_out, emitEv_agents, List.append_assoc]
  · simp only [h, Bool.false_eq_true, ↓reduceIte, emitEv_outs, foldl_emit_out, List.append_nil, List.append_assoc]

-- how the counted events are printed
example : Out.str (.ev .initReport "init") = "ev initReport:init" ∧ Out.str (.ev .initStart "invoke") = "ev initStart:invoke" ∧
    Out.str (.ev .initRuntimeDone "init:success:-") = "ev initRuntimeDone:init:success:-" := by decide

/-- an init starts with exactly one init-start carrying the phase -/
theorem C15_init_start (s : State) (ph : Phase) :
    ∃ s1 : State, s1.outs = s.outs ++ [Out.str (.ev .initStart ph.str)] ∧
      (startInit s ph = initFinish { s1 with gen := s.gen + 1, rtDoneReg := false } ph false "success" none ∨
       ∃ s2 : State, s2.outs = s1.outs ∧ startInit s ph = launchExtensions s2 ph s.extFiles) := by
  refine ⟨s.emitEv .initStart ph.str, emitEv_outs _ _ _, ?_⟩
  unfold startInit
  by_cases hc : (s.initFlow.extRegistered.setCount s.extFiles.length).2 = true
  · right
    refine ⟨_, ?_, by simp [hc, State.emitEv]; rfl⟩
    rfl
  · left
    simp [hc, State.emitEv]

/-- **Truthful init status.** The init-runtime-done of a successful init says `success`; it is
    emitted from `iAwaitAgentsReady` only with the agents-ready gate open and not cancelled, which
    the orchestrator reaches only after the restore-ready gate was passed — the gate the runtime
    walks by its first `next` (table fact: only `Ready`/`RestoreReady` from `Started` walk it). -/
theorem C15_success_needs_runtime_next (st : RtState) (c : RtCall) (is : List (Instr RtState)) (h : rtProg st c = some is) :
    (is.any fun i => match i with | .flow .initRuntimeRestoreReady _ => true | _ => false) = true →
      st = .started ∧ (c = .ready ∨ c = .restoreReady) := by
  cases st <;> cases c <;> simp [rtProg] at h <;> subst h <;> simp

/-- **Invoke events.** Dispatch emits exactly one invoke-start for the invocation (`continueInvoke`),
    and the success runtime-done is emitted only on passing the runtime-ready gate uncancelled,
    which lies behind the runtime-response gate (C04_completion_barrier). -/
theorem C15_runtime_done_success (s : State) (ho : s.orch = .vAwaitRuntimeReady)
    (hop : s.invFlow.runtimeReady.isOpen = true) (hc : s.invFlow.runtimeReady.canceled = false) :
    ∃ s', orchResume s = some s' ∧ Out.line "ev invokeRuntimeDone:success:-" ∈ s'.out := by
  by_cases ha : s.agents.length > 0
  · exact ⟨_, by simp [orchResume, ho, hop, hc, ha]; rfl, by simp [State.emit]⟩
  · refine ⟨_, by simp [orchResume, ho, hop, hc, ha]; rfl, ?_⟩
    simp [invokeReturned, State.emit]

-- non-vacuity: the full event stream of a healthy first invocation with one extension
example :
    let s0 : State := { extFiles := ["a"] }
    let s := [Op.invoke 0 5 "h", .register "a" [.invoke, .shutdown] "", .agNext "a" "", .rtNext].foldl (step 0) s0
    s.outs = ["ev initRuntimeDone:init:success:-", "ev extensionInit:a:Ready:INVOKE+SHUTDOWN:-", "ev initReport:init",
             "ev invokeStart:id#1", "rt.next=200,id#1,body=h,arn=ok,ctx=ctx0", "a.next=200,INVOKE,id#1,arn=ok,trace"] := by
  decide


/-- **One init-report per initialisation, at most one init-runtime-done — whole runs.** The three init
    events are their own constructor of the model's output (`Out.ev`), so counting involves no text.
    `runE` is `run` carrying the numbers of init-start, init-report and init-runtime-done events printed
    by all earlier ops (`runE_state`: same states as `run`). From any initial state without output and
    with the orchestrator idle, after ANY sequence of ops — API calls in any order, exits, launch
    failures, invocations, timeouts, resets, shutdowns, restores, every timer firing — under any
    scheduler choices:
    * init-starts = init-reports + 1 while an initialisation is in progress (the orchestrator is at one
      of its three init waits), and init-starts = init-reports otherwise: every initialisation that has
      ended emitted exactly one report, whatever ended it;
    * init-runtime-done events never outnumber the reports (at most one per initialisation, and never
      after its report: `C15_init_tail` gives the order inside one tail).
    Invariant `Rie.Sys.EInv`, `Rie/Proofs/SysEvents.lean`. -/
theorem C15_one_report_per_init (s0 : State) (hout : s0.out = []) (hidle : s0.orch = .idle) (ops : List (Nat × Op)) :
    let r := runE s0 (0, 0, 0) ops
    r.1 = (run s0 [] ops).1 ∧
    r.2.1 + evk r.1.out .initStart = r.2.2.1 + evk r.1.out .initReport + (if inInit r.1.orch then 1 else 0) ∧
    r.2.2.2 + evk r.1.out .initRuntimeDone ≤ r.2.2.1 + evk r.1.out .initReport := by
  have i0 : EInv (0, 0, 0) s0 := ⟨by simp [hout, hidle, inInit], by simp [hout]⟩
  have i := einv_runE s0 ops i0
  exact ⟨runE_state s0 _ [] ops, i.bal, i.rtd⟩

-- non-vacuity: an init that fails (the extension dies before registering) and the inline init of the next
-- invocation: two starts, two reports, no runtime-done for the first (the runtime was never started)
example :
    let s0 : State := { extFiles := ["a"] }
    let r := runE s0 (0, 0, 0) [(0, .invoke 0 1 "h"), (0, .exit "a" "code1" false), (0, .timer (.resetTail 2)), (0, .invoke 1 1 "h"),
                                (0, .register "a" [.invoke] ""), (0, .agNext "a" ""), (0, .rtNext)]
    r.2.1 + evk r.1.out .initStart = 3 ∧ r.2.2.1 + evk r.1.out .initReport = 3 ∧
    r.2.2.2 + evk r.1.out .initRuntimeDone = 1 ∧ inInit r.1.orch = false := by decide +kernel

end Rie.Props.C15
