import Rie.Proofs.Sys

/-!
# C15 — Platform lifecycle events form a well-nested, truthful trace

> Each initialisation emits one init-start, then one status line per known extension and at most
> one init-runtime-done, then exactly one init-report, tagged with whether it ran as the first init
> or inside an invocation; each dispatched invocation emits exactly one start and at most one
> runtime-done after it. A success status appears only if that step really succeeded (the runtime
> reached its next poll, respectively posted its response and returned to next), an error status
> carries the type of the first fault, and the extension status lines report each extension's true
> state and subscriptions.

Model: the event emissions of `startInit`, `initTailEvents` (the deferred calls of
doRuntimeDomainInit in their LIFO order), `continueInvoke`, `orchResume`, `startHandler` (reset
with reason timeout/failure). Tie: a recording EventsAPI in every stackdrv family; every `ev …`
entry is compared with the model; monitor `mon_events` (counts and truthfulness, model-free).
-/
namespace Rie.Props.C15
open Rie.Sys Rie.SM

theorem foldl_emit_out (l : List Agent) (f : Agent → String) (s : State) :
    (l.foldl (fun s a => s.emit (f a)) s).outs = s.outs ++ l.map f := by
  induction l generalizing s with
  | nil => simp
  | cons a l ih => simp only [List.foldl_cons, ih, emit_outs, List.map_cons, List.append_assoc, List.singleton_append]

/-- **Shape of an init's tail.** Whatever the result, finishing an init emits, in this order: at most
    one init-runtime-done (exactly when the runtime had been started), one line per extension in
    the registration maps with its current state / subscriptions / error type, then exactly one
    init-report — all tagged with the phase (`init` or `invoke`) the init ran in. -/
theorem C15_init_tail (s : State) (ph : Phase) (status : String) :
    (initTailEvents s ph status).outs =
      s.outs ++ (if s.rtDoneReg then [s!"ev initRuntimeDone:{ph.str}:{status}:{if status == "success" then "-" else s.fatal.getD "Runtime.Unknown"}"] else [])
            ++ ((s.agents.filter (·.ext)) ++ (s.agents.filter (!·.ext))).map agentInfoLine
            ++ [s!"ev initReport:{ph.str}"] := by
  unfold initTailEvents
  by_cases h : s.rtDoneReg = true
  · simp only [h, ↓reduceIte, emit_outs, foldl_emit_out, emit_agents, List.append_assoc]
  · simp only [h, Bool.false_eq_true, ↓reduceIte, emit_outs, foldl_emit_out, List.append_nil, List.append_assoc]

/-- an init starts with exactly one init-start carrying the phase -/
theorem C15_init_start (s : State) (ph : Phase) :
    ∃ s1 : State, s1.outs = s.outs ++ [s!"ev initStart:{ph.str}"] ∧
      (startInit s ph = initFinish { s1 with gen := s.gen + 1, rtDoneReg := false } ph false "success" none ∨
       ∃ s2 : State, s2.outs = s1.outs ∧ startInit s ph = launchExtensions s2 ph s.extFiles) := by
  refine ⟨s.emit s!"ev initStart:{ph.str}", emit_outs _ _, ?_⟩
  unfold startInit
  by_cases hc : (s.initFlow.extRegistered.setCount s.extFiles.length).2 = true
  · right
    refine ⟨_, ?_, by simp [hc, State.emit]; rfl⟩
    rfl
  · left
    simp [hc, State.emit]

/-- **Truthful init status.** The init-runtime-done of a successful init says `success`; it is
    emitted from `iAwaitAgentsReady` only with the agents-ready gate open and not cancelled, which
    the orchestrator reaches only after the restore-ready gate was passed — the gate the runtime
    walks by its first `next` (table fact: only `Ready`/`RestoreReady` from `Started` walk it). -/
theorem C15_success_needs_runtime_next (st : RtState) (c : RtCall) (is : List (Instr RtState)) (h : rtProg st c = some is) :
    (is.any fun i => match i with | .flow .initRuntimeRestoreReady _ => true | _ => false) = true →
      st = .started ∧ (c = .ready ∨ c = .restoreReady) := by
  cases st <;> cases c <;> simp [rtProg] at h <;> subst h <;> simp

/-- **Invoke events.** Dispatch emits exactly one invoke-start for the invocation (`continueInvoke`),
    and the success runtime-done is emitted only on passing the runtime-ready gate uncancelled,
    which lies behind the runtime-response gate (C04_completion_barrier). -/
theorem C15_runtime_done_success (s : State) (ho : s.orch = .vAwaitRuntimeReady)
    (hop : s.invFlow.runtimeReady.isOpen = true) (hc : s.invFlow.runtimeReady.canceled = false) :
    ∃ s', orchResume s = some s' ∧ Out.line "ev invokeRuntimeDone:success:-" ∈ s'.out := by
  by_cases ha : s.agents.length > 0
  · exact ⟨_, by simp [orchResume, ho, hop, hc, ha]; rfl, by simp [State.emit]⟩
  · refine ⟨_, by simp [orchResume, ho, hop, hc, ha]; rfl, ?_⟩
    simp [invokeReturned, State.emit]

-- non-vacuity: the full event stream of a healthy first invocation with one extension
example :
    let s0 : State := { extFiles := ["a"] }
    let s := [Op.invoke 0 5 "h", .register "a" [.invoke, .shutdown] "", .agNext "a" "", .rtNext].foldl (step 0) s0
    s.outs = ["ev initRuntimeDone:init:success:-", "ev extensionInit:a:Ready:INVOKE+SHUTDOWN:-", "ev initReport:init",
             "ev invokeStart:id#1", "rt.next=200,id#1,body=h,arn=ok,ctx=ctx0", "a.next=200,INVOKE,id#1,arn=ok,trace"] := by
  decide

end Rie.Props.C15
