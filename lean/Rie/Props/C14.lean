import Rie.Proofs.Sys

/-!
# C14 — Response size limit is exact and oversize is survivable

> A function response of at most 6 MiB + 100 bytes is delivered intact; one byte more is refused
> to the runtime with 413 and the caller instead receives a Function.ResponseSizeTooLarge error
> stating both sizes, after which the same environment keeps serving invocations without a reset.
> Event payloads larger than the same limit are cut at the limit before delivery to the runtime.

Model: `Rie.Sys.rtResponse`/`rtDeliver` (invocationresponse.go + Server.sendResponseUnsafe). The
limit is the regenerated constant `Rie.Gen.maxPayloadSize` (= interop.MaxPayloadSize of the built
code). Byte-exact delivery and the request cut are tied by the `sizes` family of stackdrv (sizes
0, 1, limit/2, limit-1, limit, limit+1, limit+4096 in every position), which compares SHA-256
hashes of what was posted and what arrived.
-/
namespace Rie.Props.C14
open Rie.Sys Rie.SM

/-- the limit of the model is the limit of the built code, and it is 6 MiB + 100 -/
theorem C14_limit : maxPayload = Rie.Gen.maxPayloadSize ∧ maxPayload = 6 * 2 ^ 20 + 100 :=
  ⟨maxPayload_gen, maxPayload_value⟩

/-- a state in which the runtime holds invocation `r.k` and may respond -/
structure CanRespond (s : State) (r : Resv) (f : Flight) : Prop where
  rt   : s.rt = some .running
  resv : s.resv = some r
  notSent : r.replySent = false
  stream : r.replyStream = true
  fl   : getFlight s r.caller = some f
  gate : s.invFlow.runtimeResponse.arrived ≠ s.invFlow.runtimeResponse.count

/-- the state after a deliverable response of class `b` with answer `a` to the runtime -/
def after (s : State) (r : Resv) (f : Flight) (b a : String) : State :=
  reply { (setFlight { s with rt := some RtState.invocationResponse, resv := some { r with replySent := true } }
            { f with body := b, g3 := if f.g3 == .fast then .done else f.g3 }) with
          rt := some .responseSent,
          invFlow := { s.invFlow with runtimeResponse :=
            { s.invFlow.runtimeResponse with arrived := s.invFlow.runtimeResponse.arrived + 1 } } }
    "rt" "response" a

/-- **Exactness.** In a state where the runtime may respond, the whole effect of a response is:
    size ≤ limit → 202 and the caller's writer holds exactly the posted body;
    size > limit → 413 and the caller's writer holds the `Function.ResponseSizeTooLarge` error
    stating both sizes (the response's real size and the limit).
    In both cases the runtime moves on to `ResponseSent`, the response barrier gets its arrival (so
    the invocation completes), the reply is marked sent — and nothing else changes: in particular
    the handler queue is untouched, i.e. **no reset is requested**. -/
theorem C14_exact (s : State) (r : Resv) (f : Flight) (size : Nat) (h : String) (hs : CanRespond s r f) :
    rtResponse s (some r.k) size h false =
      if size ≤ maxPayload then after s r f (if size == 0 then "empty" else s!"bytes:{h}") "202"
      else after s r f s!"errjson:Function.ResponseSizeTooLarge:{size}:{maxPayload}" "413,RequestEntityTooLarge" := by
  obtain ⟨hrt, hresv, hns, hst, hf, hg⟩ := hs
  rw [rtResponse_running s r size h hrt hresv]
  have := rtDeliver_eq { s with rt := some RtState.invocationResponse } r f "response"
    (if size == 0 then "empty" else s!"bytes:{h}") (if size > maxPayload then some size else none) .invocationResponse (Or.inl rfl) rfl hresv hns hst hf hg
  rw [this]
  by_cases hle : size ≤ maxPayload
  · have hng : ¬ (size > maxPayload) := by omega
    simp [hng, hle, after]
  · have hgt : size > maxPayload := by omega
    simp [hgt, hle, after]

/-- corollary: what the runtime and the caller see, and that no reset is queued -/
theorem C14_outcomes (s : State) (r : Resv) (f : Flight) (size : Nat) (h : String) (hs : CanRespond s r f) :
    let s' := rtResponse s (some r.k) size h false
    s'.queue = s.queue ∧ s'.rt = some .responseSent ∧
    (size ≤ maxPayload → s'.out = s.out ++ [.line "rt.response=202"]) ∧
    (size > maxPayload → s'.out = s.out ++ [.line "rt.response=413,RequestEntityTooLarge"]) := by
  simp only [C14_exact s r f size h hs]
  split
  · rename_i hle; refine ⟨rfl, rfl, fun _ => rfl, fun hgt => absurd hle (by omega)⟩
  · rename_i hle; refine ⟨rfl, rfl, fun h' => absurd h' hle, fun _ => rfl⟩

-- non-vacuity: a full healthy invocation without extensions reaches a state satisfying CanRespond,
-- and the two sides of the limit behave as stated
example :
    let s := step 0 (step 0 {} (.invoke 0 5 "h")) .rtNext
    s.rt = some .running ∧ (step 0 s (.rtResponse (some 1) maxPayload "x" false)).outs = ["rt.response=202"] ∧
      (step 0 s (.rtResponse (some 1) (maxPayload + 1) "x" false)).outs = ["rt.response=413,RequestEntityTooLarge"] := by
  decide

end Rie.Props.C14
