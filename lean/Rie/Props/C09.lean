import Rie.Proofs.Sys

/-!
# C09 — Shutdown choreography: TERM before KILL, one SHUTDOWN event, all reaped

> When the environment is reset or shut down and no extension is registered, the runtime is
> killed at once; otherwise the runtime is first sent SIGTERM and is killed only if still alive
> after 30% of the allowed time, every extension subscribed to SHUTDOWN receives exactly one
> SHUTDOWN event carrying the reason and deadline and is killed only if still alive at the
> deadline, and extensions not subscribed are killed without an event. The operation returns only
> after every process it started has been reaped (or after the fixed 2 s grace), never earlier and
> always within the deadline plus a bounded allowance.

Model: `beginShutdown`, `shutResume`, `shutdownAgents`, `enterGrace`, `finishShutdown`
(lambda/rapid/shutdown.go). Deadlines are the abstract timers `rtDeadline` (30 %), `agDeadline`
(100 %), `grace` (2 s). Orders are proved; the durations are measured one-sidedly on the real
stack. Tie: stackdrv families `shutdown` (fake processes that exit on TERM / ignore it, explicit
resets with every reason, shutdown), `timeouts`, `faults`.
-/
namespace Rie.Props.C09
open Rie.Sys Rie.SM

/-- **No extension registered → the runtime is killed at once**: no TERM is sent, no deadline timer
    is armed, the choreography goes straight to reaping. -/
theorem C09_no_agents_kill_now (s : State) (k : ShutKind) (p : Proc) (hn : s.agents = [])
    (hp : procByFull s (rtFull s) = some p) (hc : p.chanCreated = true) :
    shutdownBody s k = enterGrace (supKill s p.full) k := by
  simp [shutdownBody, hn, hp, hc]

/-- **Otherwise TERM first.** With at least one extension registered and a started runtime, the
    first supervisor request is Terminate; the handler then waits (`sRuntime`) — no Kill yet. -/
theorem C09_term_first (s : State) (k : ShutKind) (p : Proc) (hn : s.agents ≠ [])
    (hp : procByFull s (rtFull s) = some p) (hc : p.chanCreated = true) :
    shutdownBody s k =
      { (supTerm { s with timers := s.timers ++ [.rtDeadline, .agDeadline] } p.full) with orch := .sRuntime k } := by
  have : (s.agents.length == 0) = false := by
    cases h : s.agents with
    | nil => exact absurd h hn
    | cons _ _ => simp
  have e : procByFull { s with timers := s.timers ++ [.rtDeadline, .agDeadline] }
      (rtFull { s with timers := s.timers ++ [.rtDeadline, .agDeadline] }) = some p := hp
  simp only [shutdownBody, this, Bool.false_eq_true, ↓reduceIte, e, hc]

/-- **Kill of the runtime only at its deadline.** While waiting for the runtime (`sRuntime`) the
    choreography moves on either because the runtime's exit has been seen, or — only once the 30 %
    deadline has fired — by killing it. Before that it stays blocked. -/
theorem C09_runtime_kill_needs_deadline (s : State) (k : ShutKind) (p : Proc) (from_ : Nat)
    (ho : s.orch = .sRuntime k) (hp : procByFull s (rtFull s) = some p) (hcl : p.chanClosed = false) :
    (s.rtDeadlineFired = false → shutResume s from_ = none) ∧
    (s.rtDeadlineFired = true → shutResume s from_ = some (shutdownAgents (supKill s p.full) k)) := by
  constructor <;> intro h <;> simp [shutResume, ho, hp, hcl, h]

/-- **SHUTDOWN event exactly for the subscribed, launched extensions; the others are killed.** For
    one external extension `a` whose process was launched in this generation: if `a` is subscribed to
    SHUTDOWN it is released (its pending or next `next` call is answered with the SHUTDOWN event) and
    waited for — no Kill is queued; if not, a Kill is queued and it is not released. An extension
    whose process was never launched is skipped. -/
theorem C09_agents_split (s : State) (a : Agent) (p : Proc)
    (hp : procByFull s (extFull a.name s.gen) = some p) (hc : p.chanCreated = true) :
    (Ev.shutdown ∈ a.subs →
        shutdownOne s a = setAgent { s with awaitingExit := s.awaitingExit ++ [extFull a.name s.gen],
                                            agentWaits := s.agentWaits ++ [extFull a.name s.gen] } { a with flag := true }) ∧
    (Ev.shutdown ∉ a.subs →
        shutdownOne s a = { s with killQueue := s.killQueue ++ [extFull a.name s.gen] }) := by
  constructor <;> intro h <;> simp [shutdownOne, hp, hc, h]

theorem C09_not_launched_skipped (s : State) (a : Agent)
    (hp : procByFull s (extFull a.name s.gen) = none) : shutdownOne s a = s := by
  simp [shutdownOne, hp]

/-- **Return only after reaping or grace.** In `sGrace` the operation completes only if every
    process with an exited-channel has been seen to exit, or the 2 s grace timer has fired. -/
theorem C09_returns_after_reaped (s : State) (k : ShutKind) (from_ : Nat) (ho : s.orch = .sGrace k)
    (hopen : (s.procs.filter (·.chanCreated)).all (·.chanClosed) = false) (hg : s.graceFired = false) :
    shutResume s from_ = none := by
  simp [shutResume, ho, hopen, hg]

-- non-vacuity: no extensions: a timeout kills the runtime at once (no TERM);
-- with a SHUTDOWN-subscribed extension: TERM first, kill only after the deadline timers
example :
    let s := step 0 (step 0 {} (.invoke 0 5 "h")) .rtNext
    (step 0 s (.timer (.invoke 0))).outs = ["sup kill:runtime-1", "sup exited:runtime-1:sig9"] := by decide

example :
    let s0 : State := { extFiles := ["a"] }
    let s := step 0 (step 0 (step 0 (step 0 s0 (.invoke 0 5 "h")) (.register "a" [.shutdown] "")) (.agNext "a" "")) .rtNext
    let t := step 0 s (.timer (.invoke 0))
    t.outs = ["sup term:runtime-1"] ∧ (step 0 t (.timer .rtDeadline)).outs.contains "sup kill:runtime-1" = true := by
  decide

end Rie.Props.C09
