import Rie.Proofs.Gate
import Rie.Proofs.Thread
import Rie.Proofs.Flow

/-!
# C11 — The barrier primitive behaves as an atomic counting latch

> A waiter on a barrier returns success exactly when the number of arrivals since the last
> re-arm equals the expected count, and returns the cancellation error if the barrier was
> cancelled, which stays in force through re-arming until the barrier is cleared. Arrivals
> beyond the expected count, and expected counts below the arrivals already made, are refused
> without changing the barrier. No waiter stays blocked once its condition holds, and none
> returns before it does, for any number of concurrent waiters.

All theorems quantify over an arbitrary initial count, an arbitrary number of waiters and an
arbitrary (unbounded) list of operations = every interleaving at the granularity of the
primitive's atomic (mutex-protected) operations. The one hypothesis `NoWrap` excludes
`Register` calls that overflow `uint16` (the method is unused outside the repository's tests).
-/
namespace Rie.Props.C11
open Rie.Gate

/-- **No lost wake-up / counts.** In every reachable state: no waiter is parked while the gate
    condition holds (so every waiter whose condition holds is runnable or has returned),
    `arrived ≤ count ≤ 65535`, and `arrived` is exactly the number of accepted arrivals since the
    last effective re-arm. -/
theorem C11_no_lost_wakeup (c n : Nat) (hc : c ≤ 65535) (ops : List Op) (hw : NoWrap (init c n) ops) :
    let s := run (init c n) ops
    (∀ w ∈ s.ws, w = .parked → s.g.isOpen = false) ∧ s.g.arrived ≤ s.g.count ∧ s.g.count ≤ 65535 ∧
      s.g.arrived = s.g.walks :=
  have h := inv_run _ ops (inv_init c n hc) hw
  ⟨h.nolost, h.le, h.bound, h.ghost⟩

/-- **No premature return, right value.** A waiter enters `done r` only through its own
    `enter`/`resume` step, and at that step either `r = ok`, `arrived = count` and the gate is not
    cancelled, or the gate is cancelled and `r` is the cancellation error in force. -/
theorem C11_no_premature (s : Sys) (o : Op) (i : Nat) (r : Res)
    (hbefore : ∀ r', s.ws[i]? ≠ some (.done r'))
    (hafter : (step s o).1.ws[i]? = some (.done r)) :
    (o = .enter i ∨ o = .resume i) ∧
    ((r = .ok ∧ s.g.arrived = s.g.count ∧ s.g.canceled = false) ∨
     (s.g.canceled = true ∧ r = cancelRes s.g.err)) :=
  done_only_when_open s o i r hbefore hafter

/-- **Exactly when.** A waiter that evaluates its condition returns ok iff `arrived = count` and
    not cancelled; returns the cancellation error iff cancelled; parks otherwise. -/
theorem C11_exactly_when (g : G) :
    (g.canceled = true → evalWait g = .done (cancelRes g.err)) ∧
    (g.canceled = false → g.arrived = g.count → evalWait g = .done .ok) ∧
    (g.canceled = false → g.arrived ≠ g.count → evalWait g = .parked) :=
  ⟨evalWait_canceled g, fun hc ha => evalWait_open_ok g ha hc, fun hc ha => evalWait_closed g ha hc⟩

/-- **Refusals are inert**, and are refused exactly in the documented cases. -/
theorem C11_refusals_inert (s : Sys) :
    ((step s .walk).2 = .integrity ↔ s.g.arrived = s.g.count) ∧
    ((step s .walk).2 = .integrity → (step s .walk).1 = s) ∧
    (∀ n, ((step s (.setCount n)).2 = .integrity ↔ (n > 65535 ∨ n < s.g.arrived))) ∧
    (∀ n, (step s (.setCount n)).2 = .integrity → (step s (.setCount n)).1 = s) :=
  ⟨walk_refused_iff s, walk_refused_inert s, setCount_refused_iff s, setCount_refused_inert s⟩

/-- **Cancellation is sticky** through every later operation (including `reset` = re-arm,
    `setCount`, `walk`, waiters) until `clear` (or a newer `cancel`). -/
theorem C11_cancel_sticky (s : Sys) (e : Option Nat) (ops : List Op)
    (ho : ∀ o ∈ ops, o.keepsCancel = true) :
    let s' := run (step s (.cancel e)).1 ops
    s'.g.canceled = true ∧ s'.g.err = e ∧ evalWait s'.g = .done (cancelRes e) := by
  have h := cancel_run_sticky (step s (.cancel e)).1 ops e (cancel_establishes s e).1 (cancel_establishes s e).2 ho
  refine ⟨h.1, h.2, ?_⟩
  have := evalWait_canceled _ h.1
  rw [h.2] at this
  exact this

/-- **Flow objects**: for every interleaving of flow-level calls (each expanded into its per-gate
    steps, arbitrarily interleaved with other steps), gate `k` of the flow ends in the state the
    gate model reaches on the sub-history that concerns gate `k`. Hence all of the above holds
    per gate of `InitFlowSynchronization` / `InvokeFlowSynchronization`. -/
theorem C11_flow_gates_independent (f : Flow.Flow) (ops : List Flow.FOp) (k : Nat) (s : Sys)
    (h : f.gates[k]? = some s) :
    (Flow.run f ops).gates[k]? = some (run s (Flow.proj k ops)) :=
  Flow.run_proj f ops k s h

/-- Fan-out of a flow-level `CancelWithError e`: once the step for gate `k` has happened, gate `k`
    stays cancelled with `e` for every continuation without a clear / newer cancel on gate `k`. -/
theorem C11_flow_cancel_fanout (f : Flow.Flow) (pre post : List Flow.FOp) (k : Nat) (s : Sys)
    (e : Option Nat) (h : f.gates[k]? = some s)
    (hpost : ∀ o ∈ Flow.proj k post, o.keepsCancel = true) :
    ∃ s', (Flow.run f (pre ++ [⟨k, .cancel e⟩] ++ post)).gates[k]? = some s' ∧
      s'.g.canceled = true ∧ s'.g.err = e := by
  refine ⟨_, Flow.run_proj f _ k s h, ?_⟩
  have hp : Flow.proj k (pre ++ [⟨k, .cancel e⟩] ++ post) = Flow.proj k pre ++ [.cancel e] ++ Flow.proj k post := by
    simp [Flow.proj, List.filterMap_append]
  rw [hp]
  simp only [run, List.foldl_append, List.foldl_cons, List.foldl_nil]
  have := C11_cancel_sticky (run s (Flow.proj k pre)) e (Flow.proj k post) hpost
  simp only [run] at this
  exact ⟨this.1, this.2.1⟩

/-- **ManagedThread**: a release is never lost and lets exactly one suspend through. -/
theorem C11_thread_one_shot (n : Nat) (ops : List Thread.Op) :
    let s := Thread.run (Thread.init n) ops
    (s.flag = true → (∀ w ∈ s.ws, w ≠ .parked) ∨ (∃ w ∈ s.ws, w = .woken)) ∧
    s.passed + (if s.flag then 1 else 0) = s.released :=
  have h := Thread.inv_run _ ops (Thread.inv_init n)
  ⟨h.nolost, h.oneshot⟩

/-! ### non-vacuity: concrete runs that meet the hypotheses and exercise the conclusions -/

-- two waiters park, the second of two arrivals wakes both, both return ok
example : (run (init 2 2) [.enter 0, .enter 1, .walk, .walk, .resume 0, .resume 1]).ws
    = [.done .ok, .done .ok] := by decide
example : NoWrap (init 2 2) [.enter 0, .enter 1, .walk, .walk, .resume 0, .resume 1] := by
  simp [NoWrap, Op.noWrap]
-- the schedule that used to lose a wake-up (SetCount lowering the count onto `arrived`)
example : (run (init 2 1) [.enter 0, .walk, .setCount 1]).ws = [.woken] := by decide
-- a third arrival is refused
example : (step (run (init 2 0) [.walk, .walk]) .walk).2 = .integrity := by decide
-- cancel, re-arm, wait: still the cancellation error
example : (run (init 1 1) [.cancel (some 7), .reset, .enter 0]).ws = [.done (.err 7)] := by decide

end Rie.Props.C11
