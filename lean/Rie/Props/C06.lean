import Rie.Proofs.Sys
import Rie.Props.FrontEndTable

/-!
# C06 — Process exit or reported failure yields the right error, then recovery

> If the runtime or an extension exits, crashes, fails to launch, or reports an init or exit error
> at any point of its protocol, the pending (or next) invocation is answered with a failure
> status, never left hanging. Its body is the response the runtime had already delivered for that
> invocation, else the runtime's own init-error payload, else, when the fault hit an environment
> that had completed initialisation, a JSON error naming the first fault (Runtime.ExitError,
> Extension.Crash, Extension.ExitError, ...); a fault during initialisation that the runtime did
> not report itself yields the failure status only. The environment is then torn down and the
> following invocation is served by new processes.

Model: `watchOne` (events watcher, handlers.go), `storeFatal` (appctx.StoreFirstFatalError),
`agReport` (init/exit error reports), `invokeReturned`/`invokeFail` (handleInvokeError +
FastInvoke's failure branch), `flightMove` (AwaitRelease → Reset). Tie: stackdrv families `faults`,
`chaos`, `shutdown` (exit 0 / non-zero / signal of the runtime and of each extension at every
point of their scripts, with and without a prior error report), each followed by further
invocations.
-/
namespace Rie.Props.C06
open Rie.Sys Rie.SM

/-- **The first fault is the one that is recorded** (store-if-absent). -/
theorem C06_first_fault_recorded (s : State) (a b : String) :
    (storeFatal s a).fatal = some (s.fatal.getD a) ∧ storeFatal (storeFatal s a) b = storeFatal s a := by
  cases h : s.fatal <;> simp [storeFatal, h]

/-- **An exit is noticed without any timer**: handling a termination event cancels the flows at
    once (unless they already are), so every wait of the pending handler becomes resumable
    (C05_cancel_unblocks) — the failure does not need the function timeout to be detected. The
    recorded type is Runtime.ExitError for the runtime of the current generation, Extension.Crash
    for anything else, unless a shutdown is in progress (then nothing is recorded). -/
theorem C06_exit_cancels (s : State) (full : String) (zero : Bool) (p : Proc)
    (hp : procByFull s full = some p) (hc : p.chanCreated = true) (hsd : s.shuttingDown = false)
    (hna : s.awaitingExit.contains full = false) :
    watchOne s full zero =
      cancelFlows (setProc (storeFatal s (if full == rtFull s then "Runtime.ExitError" else "Extension.Crash"))
        { p with chanClosed := true }) .procExit := by
  have e1 : procByFull (storeFatal s (if full == rtFull s then "Runtime.ExitError" else "Extension.Crash")) full = some p := by
    unfold storeFatal; split <;> exact hp
  have e2 : (storeFatal s (if full == rtFull s then "Runtime.ExitError" else "Extension.Crash")).awaitingExit = s.awaitingExit := by
    unfold storeFatal; split <;> rfl
  simp only [watchOne, hsd, Bool.not_false, ↓reduceIte, e2, hna, Bool.false_eq_true, e1, hc, Bool.not_true]

/-- **The body of a failed invocation.** When the handler returns a failure that is not the
    reset's own cancellation, FastInvoke's goroutine tries to send `failureBody`: the cached
    init-error payload of this generation if there is one (the runtime's own report), else the JSON
    error naming the first recorded fault (`Sandbox.Failure` if none was recorded). If a reply was
    already sent (`sendReply` answers `responseSent`: the runtime's response/error is what the caller
    has) nothing is overwritten. -/
theorem C06_failure_body (s : State) (errType : String) :
    (∀ b, s.cached = some b → failureBody s errType = b) ∧
    (s.cached = none → failureBody s errType = s!"errjson:{errType}") ∧
    (∀ r, s.resv = some r → r.replySent = true → (sendReply s r.k (failureBody s errType)) = (s, .responseSent)) := by
  refine ⟨?_, ?_, ?_⟩
  · intro b hb; simp [failureBody, hb]
  · intro hn; simp [failureBody, hn]
  · intro r hr hs; simp [sendReply, hr, hs]

/-- the error type handed to `failureBody` is the first recorded fault -/
theorem C06_failure_type (s : State) (e : Option CErr) :
    invokeFail s e = invokeReturned s false (e == some .reset) (s.fatal.getD "Sandbox.Failure") := rfl

/-- the reset's own cancellation does not produce a body: the handler's failure is marked
    ResetReceived and FastInvoke's goroutine returns silently -/
theorem C06_reset_received_silent (s : State) (errType : String) :
    (invokeReturned s false true errType).resv = s.resv ∧ (invokeReturned s false true errType).doneChan = s.doneChan := by
  simp [invokeReturned]

/-- **Then teardown**: a done message carrying an error makes the release goroutine request a reset
    (reason ReleaseFail): the flows are cancelled, the reset is queued for the handler mutex, and the
    caller will be answered with InvokeDoneFailed only when that reset has completed
    (`resetTail 2` moves the goroutine on) — after which `C05_fresh_after` applies. -/
theorem C06_failure_requests_reset (s : State) (f : Flight) (v : String)
    (h3 : f.g3 = .done) (h2 : f.g2 = .awaitRelease) (hd : s.doneChan = some v) (hv : v ≠ "ok") :
    flightMove s f = some (setFlight (requestReset { s with doneChan := none, rapidPhaseInvoking := false } "ReleaseFail" 2)
      { f with g2 := .resetWait, released := some (if v == "InitDoneFailed" then "InitDoneFailed" else "InvokeDoneFailed") }) := by
  simp only [flightMove, h3, h2, hd]
  simp only [beq_self_eq_true, Option.isSome_some, Bool.and_self, ↓reduceIte]
  have : (G3PC.done == G3PC.awaitInit) = false := rfl
  have : (G3PC.done == G3PC.shutdownRun) = false := rfl
  have : (G3PC.done == G3PC.fast) = false := rfl
  simp only [*, Bool.false_eq_true, ↓reduceIte, Bool.false_and]

-- non-vacuity: the runtime dies while the caller waits for its response: failure with the JSON
-- error naming Runtime.ExitError, no timer involved
example :
    let s := step 0 (step 0 {} (.invoke 0 5 "h")) .rtNext
    let t := step 0 s (.exit "runtime" "code1" false)
    t.timers = [.invoke 0, .resetTail 2] ∧ (step 0 t (.timer (.resetTail 2))).outs = ["caller0 done err=InvokeDoneFailed body=errjson:Runtime.ExitError"] := by
  decide

/-- **The failure status** (front end): a failed invocation or a failed initialisation is answered with
    status 502 and exactly the body the emulator core produced (see `C06_failure_body`). -/
theorem C06_frontend_failure (proxyStatus : Nat) :
    Rie.FrontEnd.respond (some "ErrInvokeDoneFailed") proxyStatus = { status := 502, chunks := [.body] } ∧
    Rie.FrontEnd.respond (some "ErrInitDoneFailed") proxyStatus = { status := 502, chunks := [.body] } := by
  constructor <;> simp [Rie.FrontEnd.respond, Rie.FrontEnd.table, Rie.FrontEnd.run, Rie.FrontEnd.setStatus]

end Rie.Props.C06
