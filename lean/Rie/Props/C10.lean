import Rie.Proofs.Sys
import Rie.Props.FrontEndTable
import Rie.Proofs.SysResv

/-!
# C10 — At most one invocation in flight; extra callers are refused harmlessly

> At most one invocation is in flight at any time. An invocation that arrives while another is
> in flight, or while its reset is still in progress, is refused immediately with a client error,
> has no effect on the in-flight invocation or on later ones, and never crashes the emulator.

Model: `Rie.Sys` (interop server part: `Server.Reserve/Invoke/Release`, rapidcore/server.go).
The reservation is the single field `resv : Option Resv`; a reservation exists from `Reserve`
until `Release` (success path) or until the reset triggered for it has cleared the server
(`resetTail`), so "while its reset is still in progress" is covered by `resv.isSome`.
Tie: stackdrv family `concurrent` (second and third callers injected at every phase), and every
other family (the generator injects extra callers in `chaos`).
-/
namespace Rie.Props.C10
open Rie.Sys

/-- **Refused at once, without effect.** If a reservation exists, an arriving invocation produces
    exactly the outcome `AlreadyReserved` for that caller, in the same step, and the whole state
    (reservation, flights, timers, queue, orchestrator, flows, …) is unchanged. -/
theorem C10_second_refused_inert (s : State) (c size : Nat) (h : String)
    (hi : s.inited = true) (hr : s.resv.isSome = true) :
    applyOp s (.invoke c size h) = s.emitCaller c "AlreadyReserved" "empty" := by
  simp [applyOp, startServerInit, hi, hr]

/-- … hence nothing the in-flight invocation or later ones depend on changes. -/
theorem C10_second_refused_core (s : State) (c size : Nat) (h : String)
    (hi : s.inited = true) (hr : s.resv.isSome = true) :
    (applyOp s (.invoke c size h)).core = s.core := by
  rw [C10_second_refused_inert s c size h hi hr]; rfl

/-- **At most one.** An invocation is admitted only when no reservation exists, and then it becomes
    the reservation with a fresh invocation number. -/
theorem C10_admitted_only_when_free (s : State) (c size : Nat) (h : String) (hi : s.inited = true) :
    (applyOp s (.invoke c size h)).resv ≠ s.resv →
      s.resv = none ∧ (applyOp s (.invoke c size h)).resv = some { k := s.nextK, caller := c } ∧
      (applyOp s (.invoke c size h)).nextK = s.nextK + 1 := by
  intro hne
  cases hr : s.resv with
  | some r =>
    exfalso; apply hne
    rw [C10_second_refused_inert s c size h hi (by simp [hr])]; simp [hr]
  | none => simp [applyOp, startServerInit, hi, hr]

/-- A refused caller cannot crash the emulator (the nil reservation is never dereferenced). -/
theorem C10_refusal_no_crash (s : State) (c size : Nat) (h : String)
    (hi : s.inited = true) (hr : s.resv.isSome = true) (hc : s.crashed = false) :
    (applyOp s (.invoke c size h)).crashed = false := by
  rw [C10_second_refused_inert s c size h hi hr]; simpa using hc

-- non-vacuity: a second caller during the first one's init is refused, the first is untouched
example :
    let s1 := step 0 {} (.invoke 0 5 "h")
    s1.resv.isSome = true ∧ (step 0 s1 (.invoke 1 5 "h")).outs = ["caller1 done err=AlreadyReserved body=empty"] := by
  decide

/-- **The client error** (front end): a refused invocation (`ErrAlreadyReserved`) is answered with
    status 400 and an empty body, whatever the proxy holds. -/
theorem C10_frontend_refusal (proxyStatus : Nat) :
    Rie.FrontEnd.respond (some "ErrAlreadyReserved") proxyStatus = { status := 400, chunks := [] } := by
  simp [Rie.FrontEnd.respond, Rie.FrontEnd.table, Rie.FrontEnd.run, Rie.FrontEnd.setStatus]

/-- **At most one invocation in flight, and it is the latest — whole runs.** From a state without a reservation
    (a freshly started emulator), after ANY sequence of ops — invocations (admitted or refused), API calls in any
    order, exits, timeouts, resets, shutdowns, restores, every timer firing — under any scheduler choices: the
    reservation, if there is one, belongs to the invocation admitted last (its number is the counter minus
    one). There is one reservation slot, an admission needs it free (`C10_admitted_only_when_free`), and nothing
    but an admission ever writes a number into it: no function of the model revives an earlier invocation's
    reservation while a later one is in flight or after it. Invariant `Rie.Sys.RInv`, `Rie/Proofs/SysResv.lean`
    (frame lemmas: every function leaves the counter and the reservation's number alone, or gives the
    reservation up). -/
theorem C10_one_in_flight_run (s0 : State) (h0 : s0.resv = none) (ops : List (Nat × Op)) :
    let s := (run s0 [] ops).1
    ∀ r, s.resv = some r → r.k + 1 = s.nextK := by
  intro s
  have i0 : RInv s0 := by intro r hr; rw [h0] at hr; cases hr
  exact rinv_run s0 [] ops i0

-- non-vacuity: a refused second caller leaves the first one's reservation (number 1 of counter 2); after the
-- invocation has completed the slot is free and the next admission takes number 2
example :
    let ops : List (Nat × Op) := [(0, .invoke 0 1 "a"), (0, .rtNext), (0, .invoke 1 1 "b")]
    ((run {} [] ops).1.resv.map (·.k), (run {} [] ops).1.nextK) = (some 1, 2) ∧
    let ops2 := ops ++ [(0, .rtResponse (some 1) 1 "x" false), (0, .rtNext), (0, .invoke 2 1 "c")]
    ((run {} [] ops2).1.resv.map (·.k), (run {} [] ops2).1.nextK) = (some 2, 3) := by decide +kernel

end Rie.Props.C10
