import Rie.Proofs.Sys
import Rie.Props.FrontEndTable

/-!
# C10 — At most one invocation in flight; extra callers are refused harmlessly

> At most one invocation is in flight at any time. An invocation that arrives while another is
> in flight, or while its reset is still in progress, is refused immediately with a client error,
> has no effect on the in-flight invocation or on later ones, and never crashes the emulator.

Model: `Rie.Sys` (interop server part: `Server.Reserve/Invoke/Release`, rapidcore/server.go).
The reservation is the single field `resv : Option Resv`; a reservation exists from `Reserve`
until `Release` (success path) or until the reset triggered for it has cleared the server
(`resetTail`), so "while its reset is still in progress" is covered by `resv.isSome`.
Tie: stackdrv family `concurrent` (second and third callers injected at every phase), and every
other family (the generator injects extra callers in `chaos`).
-/
namespace Rie.Props.C10
open Rie.Sys

/-- **Refused at once, without effect.** If a reservation exists, an arriving invocation produces
    exactly the outcome `AlreadyReserved` for that caller, in the same step, and the whole state
    (reservation, flights, timers, queue, orchestrator, flows, …) is unchanged. -/
theorem C10_second_refused_inert (s : State) (c size : Nat) (h : String)
    (hi : s.inited = true) (hr : s.resv.isSome = true) :
    applyOp s (.invoke c size h) = s.emitCaller c "AlreadyReserved" "empty" := by
  simp [applyOp, startServerInit, hi, hr]

/-- … hence nothing the in-flight invocation or later ones depend on changes. -/
theorem C10_second_refused_core (s : State) (c size : Nat) (h : String)
    (hi : s.inited = true) (hr : s.resv.isSome = true) :
    (applyOp s (.invoke c size h)).core = s.core := by
  rw [C10_second_refused_inert s c size h hi hr]; rfl

/-- **At most one.** An invocation is admitted only when no reservation exists, and then it becomes
    the reservation with a fresh invocation number. -/
theorem C10_admitted_only_when_free (s : State) (c size : Nat) (h : String) (hi : s.inited = true) :
    (applyOp s (.invoke c size h)).resv ≠ s.resv →
      s.resv = none ∧ (applyOp s (.invoke c size h)).resv = some { k := s.nextK, caller := c } ∧
      (applyOp s (.invoke c size h)).nextK = s.nextK + 1 := by
  intro hne
  cases hr : s.resv with
  | some r =>
    exfalso; apply hne
    rw [C10_second_refused_inert s c size h hi (by simp [hr])]; simp [hr]
  | none => simp [applyOp, startServerInit, hi, hr]

/-- A refused caller cannot crash the emulator (the nil reservation is never dereferenced). -/
theorem C10_refusal_no_crash (s : State) (c size : Nat) (h : String)
    (hi : s.inited = true) (hr : s.resv.isSome = true) (hc : s.crashed = false) :
    (applyOp s (.invoke c size h)).crashed = false := by
  rw [C10_second_refused_inert s c size h hi hr]; simpa using hc

-- non-vacuity: a second caller during the first one's init is refused, the first is untouched
example :
    let s1 := step 0 {} (.invoke 0 5 "h")
    s1.resv.isSome = true ∧ (step 0 s1 (.invoke 1 5 "h")).outs = ["caller1 done err=AlreadyReserved body=empty"] := by
  decide

/-- **The client error** (front end): a refused invocation (`ErrAlreadyReserved`) is answered with
    status 400 and an empty body, whatever the proxy holds. -/
theorem C10_frontend_refusal (proxyStatus : Nat) :
    Rie.FrontEnd.respond (some "ErrAlreadyReserved") proxyStatus = { status := 400, chunks := [] } := by
  simp [Rie.FrontEnd.respond, Rie.FrontEnd.table, Rie.FrontEnd.run, Rie.FrontEnd.setStatus]

end Rie.Props.C10
