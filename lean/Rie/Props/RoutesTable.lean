import Rie.Model.Sys.Run
import Rie.Gen.Routes

/-! (T) obligation: the route table of the Runtime API server as read from the current source
(`lambda/rapi/router.go` composed with the mounts of `lambda/rapi/server.go`: method, path,
condition, validating middleware) equals the model's `routeTable`, row by row and in order. -/
namespace Rie.Props.RoutesTable
open Rie.Sys

theorem gen_routes_match : Rie.Gen.routes = routeTable := by decide

/-- **Guards.** Read off the table (hence true of the source by `gen_routes_match`):
    * the two routes that carry a request id — response and error — and only they are wrapped in
      the request-id validator (the id is compared with the current one before the handler, i.e.
      before any state transition — C02);
    * every Extensions-API route except `register` (which issues the identifier), and the two
      telemetry subscription routes, are wrapped in the identifier validator (C13: every call after
      register must carry an identifier);
    * the restore routes and the credentials route exist only in snapshot mode (C12, C18). -/
theorem guards :
    (routeTable.filter (·.2.2.2 == "reqid")).map (·.2.1) =
      ["/2018-06-01/runtime/invocation/{awsrequestid}/response", "/2018-06-01/runtime/invocation/{awsrequestid}/error"] ∧
    (routeTable.filter (·.2.2.2 == "agentid")).map (·.2.1) =
      ["/2020-01-01/extension/event/next", "/2020-01-01/extension/init/error", "/2020-01-01/extension/exit/error",
       "/2020-08-15/logs", "/2022-07-01/telemetry"] ∧
    ("POST", "/2020-01-01/extension/register", "", "") ∈ routeTable ∧
    (routeTable.filter (·.2.2.1 == "snapshot")).map (·.2.1) =
      ["/2018-06-01/runtime/restore/next", "/2018-06-01/runtime/restore/error", "/2021-04-23/credentials"] := by
  decide

end Rie.Props.RoutesTable
