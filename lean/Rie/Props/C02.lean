import Rie.Proofs.Sys
import Rie.Proofs.SysIds
import Rie.Proofs.SysResv
import Rie.Props.RoutesTable

/-!
# C02 — Only the in-flight request id is accepted, and only once

> A response or error is accepted only for the request id of the invocation currently in flight
> and only the first time: ids of earlier invocations (including ones that timed out, failed or
> were reset), unknown ids and second submissions are refused with a client error. A refused
> submission has no effect on what any caller receives, on the runtime's protocol state or on
> later invocations.

Model: `Rie.Sys.rtResponse` / `rtError` (AwsRequestIDValidator + invocationresponse.go /
invocationerror.go + Server.sendResponseUnsafe). `idk : Option Nat` is the invocation the
submitted id names (`none`: it names none). Tie: stackdrv families misuse / faults / chaos
(stale ids from every kind of earlier invocation, duplicates, unknown ids at every phase).
-/
namespace Rie.Props.C02
open Rie.Sys Rie.SM

/-- **Wrong id → 400, nothing changes.** Any id that is not the current reservation's (earlier
    invocation, unknown id, no reservation at all) is refused by the validator before any state is
    touched. -/
theorem C02_wrong_id_inert (s : State) (idk : Option Nat) (size : Nat) (h : String) (bad : Bool)
    (hne : idk = none ∨ idk ≠ currentId s) :
    rtResponse s idk size h bad = reply s "rt" "response" "400,InvalidRequestID" ∧
    ∀ et, rtError s idk et = reply s "rt" "error" "400,InvalidRequestID" := by
  have hc : (idk.isNone || idk != currentId s) = true := by
    rcases hne with h | h
    · simp [h]
    · simp [h]
  constructor
  · simp [rtResponse, hc]
  · intro et; simp [rtError, hc]

/-- **Right id, wrong moment → 403, nothing changes.** With the current id but the runtime not in
    `Running` (it has not polled, or it already submitted: second submission), the call is refused
    with InvalidStateTransition and the state is untouched. -/
theorem C02_second_submission_inert (s : State) (k : Nat) (st : RtState) (size : Nat) (h : String) (bad : Bool)
    (hid : currentId s = some k) (hrt : s.rt = some st) (hst : st ≠ .running) :
    rtResponse s (some k) size h bad = reply s "rt" "response" "403,InvalidStateTransition" ∧
    ∀ et, rtError s (some k) et = reply s "rt" "error" "403,InvalidStateTransition" := by
  have h1 : rtProg st .invocationResponse = none := by cases st <;> simp_all [rtProg]
  have h2 : rtProg st .invocationErrorResponse = none := by cases st <;> simp_all [rtProg]
  constructor
  · simp [rtResponse, hid, hrt, h1]
  · intro et; simp [rtError, hid, hrt, h2]

/-- corollary: a refused submission of those two kinds leaves everything but the answer unchanged,
    so every later step behaves as if it had not happened -/
theorem C02_refusal_core (s : State) (idk : Option Nat) (size : Nat) (h : String) (bad : Bool)
    (hne : idk = none ∨ idk ≠ currentId s) : (rtResponse s idk size h bad).core = s.core := by
  rw [(C02_wrong_id_inert s idk size h bad hne).1]; rfl

/-- **Accepted only for the current id, in Running, once.** If a submission is answered 202 or 413
    then its id was the current reservation's, the runtime was `Running`, and the reply had not been
    sent; afterwards the reply is marked sent, so it cannot be accepted again. -/
theorem C02_accept_only_current (s : State) (idk : Option Nat) (size : Nat) (h : String)
    (hacc : (rtResponse s idk size h false).out = s.out ++ [.line "rt.response=202"] ∨
            (rtResponse s idk size h false).out = s.out ++ [.line "rt.response=413,RequestEntityTooLarge"]) :
    idk = currentId s ∧ idk.isSome = true ∧ s.rt = some .running := by
  -- a refusal line differs from both acceptance lines
  have hrefuse : ∀ (a : String), (a = "400,InvalidRequestID" ∨ a = "403,InvalidStateTransition" ∨ a = "neterr") →
      rtResponse s idk size h false = reply s "rt" "response" a → False := by
    intro a ha he
    rw [he] at hacc
    simp only [reply, State.emit, List.append_cancel_left_eq, List.cons.injEq, and_true, Out.line.injEq] at hacc
    rcases ha with rfl | rfl | rfl <;> rcases hacc with h' | h' <;> exact absurd h' (by decide)
  cases hk : idk with
  | none =>
    exfalso
    exact hrefuse _ (Or.inl rfl) ((C02_wrong_id_inert s idk size h false (Or.inl hk)).1)
  | some k =>
    by_cases hcur : currentId s = some k
    · refine ⟨hcur.symm, rfl, ?_⟩
      cases hrt : s.rt with
      | none =>
        exfalso
        subst hk
        apply hrefuse "neterr" (Or.inr (Or.inr rfl))
        simp [rtResponse, hcur, hrt]
      | some st =>
        by_cases hst : st = .running
        · rw [hst]
        · exfalso
          subst hk
          exact hrefuse _ (Or.inr (Or.inl rfl)) (C02_second_submission_inert s k st size h false hcur hrt hst).1
    · exfalso
      subst hk
      exact hrefuse _ (Or.inl rfl) ((C02_wrong_id_inert s (some k) size h false (Or.inr (fun h' => hcur h'.symm))).1)

/-!
### What is NOT inert (kept visible; see DESIGN.md, known finding C02:refused-after-platform-error)

With the current id and the runtime `Running` but the reply already sent by the platform (the
invocation has failed and the default error went to the caller; the reset is under way) the
submission is answered 400 — yet the runtime's state has moved to `InvocationResponse` before the
refusal, so a repetition is answered 403. The full statement "every refusal leaves the state
unchanged" is therefore false of model and code; the counterexample below is the history.
-/
theorem C02_refusal_inert_counterexample :
    ∃ s : State, ∃ k, currentId s = some k ∧ s.rt = some .running ∧
      (rtResponse s (some k) 1 "h" false).out = s.out ++ [.line "rt.response=400,InvalidRequestID"] ∧
      (rtResponse s (some k) 1 "h" false).rt ≠ s.rt := by
  refine ⟨{ rt := some .running, resv := some { k := 1, caller := 0, replySent := true, replyStream := true } }, 1, rfl, rfl, ?_, ?_⟩ <;> decide

/-- **The id is checked before the handler — in the source.** In the route table read from
    `lambda/rapi/router.go` on every run, the two routes that carry a request id (response, error)
    — and no others — are registered behind `middleware.AwsRequestIDValidator`, which compares the
    URL id with the interop server's current id before the handler (hence before any state
    transition) runs. The model's `rtResponse` / `rtError` start with that comparison
    (`C02_wrong_id_inert`). -/
theorem C02_id_validator_in_source :
    (Rie.Gen.routes.filter (·.2.2.2 == "reqid")).map (fun r => (r.1, r.2.1)) =
      [("POST", "/2018-06-01/runtime/invocation/{awsrequestid}/response"),
       ("POST", "/2018-06-01/runtime/invocation/{awsrequestid}/error")] := by
  rw [RoutesTable.gen_routes_match]; decide

/-- **Ids not issued yet are refused — whole runs.** After ANY sequence of ops from a freshly started
    emulator (any scheduler choices), a response or error under an invocation number that has not been
    issued (`k ≥ nextK`: an unknown id) is refused with 400 and changes nothing — the current reservation's
    number is always below the counter (`Rie.Sys.KInv`, `Rie/Proofs/SysIds.lean`). Together with
    `C02_wrong_id_inert` (any id other than the current one) and `C01_fresh_id_run` (a new invocation's id
    differs from every id still held) this is the whole-run form of "only the request id of the invocation
    currently in flight". -/
theorem C02_unissued_id_refused_run (s0 : State) (h0 : known s0 = []) (ops : List (Nat × Op)) (k size : Nat) (h : String) (bad : Bool) :
    let s := (run s0 [] ops).1
    s.nextK ≤ k →
    rtResponse s (some k) size h bad = reply s "rt" "response" "400,InvalidRequestID" ∧
    ∀ et, rtError s (some k) et = reply s "rt" "error" "400,InvalidRequestID" := by
  intro s hk
  apply C02_wrong_id_inert
  right
  intro hc
  have i0 : KInv s0 := by intro k hk; rw [h0] at hk; cases hk
  have i := kinv_run s0 [] ops i0
  -- the current id is the reservation's number, which is held
  have hmem : k ∈ known s := by
    unfold currentId at hc
    cases hr : s.resv with
    | none => rw [hr] at hc; cases hc
    | some r =>
      rw [hr] at hc
      have : r.k = k := by simpa using hc.symm
      simp [mem_known, hr, this]
  exact absurd (i k hmem) (Nat.not_lt.mpr hk)

/-- **The invocation in flight carries the newest id; every older id is refused — whole runs.** After ANY
    sequence of ops from a freshly started emulator (any scheduler choices), while an invocation is in flight
    every invocation number the emulator still holds anywhere — in the queue of handler requests, in the
    running handler, in the renderer (the event a slow runtime may still fetch or answer after a reset) — is
    at most the reservation's number while an invocation is in flight (`KInv` of `SysIds` + `RInv` of
    `SysResv`: held numbers are below the counter and the reservation has the counter minus one), and one
    that is not the reservation's own — an older invocation's, or any held number when nothing is in
    flight — is refused with 400 on a response or error and changes nothing. So an event rendered for an
    earlier invocation can never be answered into a later one, however the two overlapped. (In the model
    as it stands a reset also empties the renderer, so at quiescence the "older id under a newer
    reservation" case may not arise at all; the theorem does not depend on that.) -/
theorem C02_older_ids_refused_run (s0 : State) (h0 : known s0 = []) (ops : List (Nat × Op)) (size : Nat) (h : String) (bad : Bool) :
    let s := (run s0 [] ops).1
    ∀ k, k ∈ known s →
      (∀ r, s.resv = some r → k ≤ r.k) ∧
      (currentId s ≠ some k →
        rtResponse s (some k) size h bad = reply s "rt" "response" "400,InvalidRequestID" ∧
        ∀ et, rtError s (some k) et = reply s "rt" "error" "400,InvalidRequestID") := by
  intro s k hk
  have i0 : KInv s0 := by intro k hk; rw [h0] at hk; cases hk
  have r0 : RInv s0 := by
    intro r hr
    have : r.k ∈ known s0 := by simp [mem_known, hr]
    rw [h0] at this; cases this
  have i := kinv_run s0 [] ops i0 k hk
  refine ⟨fun r hr => ?_, fun hne => ?_⟩
  · have j := rinv_run s0 [] ops r0 r hr
    omega
  · apply C02_wrong_id_inert
    right
    exact fun hc => hne hc.symm

-- non-vacuity, both parts. (1) After a completed invocation the renderer still holds its number 1 and there
-- is no reservation: a late second response under that id is refused and changes nothing. (2) With the next
-- invocation admitted, everything held is the reservation's own number 2.
example :
    let ops : List (Nat × Op) := [(0, .invoke 0 1 "a"), (0, .rtNext), (0, .rtResponse (some 1) 1 "x" false), (0, .rtNext)]
    let s := (run {} [] ops).1
    (s.resv.map (·.k), known s) = (none, [1]) ∧
    rtResponse s (some 1) 1 "y" false = reply s "rt" "response" "400,InvalidRequestID" ∧
    let s2 := (run {} [] (ops ++ [(0, .invoke 1 1 "b")])).1
    (s2.resv.map (·.k), known s2) = (some 2, [2, 2, 2]) := by
  refine ⟨by decide +kernel, ?_, by decide +kernel⟩
  exact (C02_older_ids_refused_run {} rfl _ 1 "y" false 1 (by decide +kernel)).2 (by decide +kernel) |>.1

end Rie.Props.C02
