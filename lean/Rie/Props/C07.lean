import Rie.Proofs.Sys
import Rie.Props.C05
import Rie.Proofs.SysProcs
import Rie.Proofs.SysSched

/-!
# C07 — No client behaviour can wedge or crash the emulator

> Whatever the runtime and extension processes do (any sequence of legal or illegal API calls,
> stalls, exits or crashes, in any generation) the emulator process keeps running and every
> invocation receives an outcome within the function timeout plus the fixed reset allowance. The
> body a caller receives is always either the payload the runtime posted for that invocation or a
> platform-generated error or timeout message. Once all processes behave correctly again, at most
> one further invocation fails before service is normal.

Model: all of `Rie.Sys`. "Keeps running" = the `crashed` flag (a `log.Panic` outside an HTTP
handler) is never set. Proved here: (1) no API call of a client, legal or not, sets it — the
handlers answer and return; (2) a reset is always possible: cancellation makes every orchestrator
wait resumable (C05) and the shutdown choreography's waits end at their timers; (3) the only
bodies the model ever writes to a caller. What is NOT proved as one theorem: that no reachable
state lets `invokeReturned`/`watchOne` take their panic branches — two such histories existed on
the original tree (zombie invoke after an init-phase timeout; see DESIGN.md) and were repaired; the
remaining argument is the correspondence over the `chaos` and `misuse` families plus crash
detection of the hosting process (a crash of the real stack is a violation by itself).
-/
namespace Rie.Props.C07
open Rie.Sys Rie.SM

/-- answering a call never crashes anything -/
theorem reply_keeps (s : State) (a c r : String) : (reply s a c r).crashed = s.crashed := rfl

/-- **No Runtime-API misuse crashes the emulator**: refused calls (wrong id, wrong state, unknown
    route, restore routes outside snapshot mode) only produce an answer. -/
theorem C07_refusals_do_not_crash (s : State) :
    (∀ idk size h bad, (idk = none ∨ idk ≠ currentId s) → (rtResponse s idk size h bad).crashed = s.crashed) ∧
    (∀ idk et, (idk = none ∨ idk ≠ currentId s) → (rtError s idk et).crashed = s.crashed) ∧
    (∀ m p, (applyOp s (.rtRaw m p)).crashed = s.crashed) ∧
    (∀ name mode, mode = "noid" ∨ mode = "badid" ∨ mode = "unknownid" → (agNext s name mode).crashed = s.crashed) := by
  refine ⟨?_, ?_, ?_, ?_⟩
  · intro idk size h bad hne
    have hc : (idk.isNone || idk != currentId s) = true := by rcases hne with h | h <;> simp [h]
    simp [rtResponse, hc, reply, State.emit]
  · intro idk et hne
    have hc : (idk.isNone || idk != currentId s) = true := by rcases hne with h | h <;> simp [h]
    simp [rtError, hc, reply, State.emit]
  · intro m p; simp [applyOp, reply, State.emit]
  · intro name mode hm
    rcases hm with h | h | h <;> subst h <;> simp [agNext, resolveId, reply, State.emit]

/-- **A reset can always get through.** `HandleReset` cancels the flows before it waits for the
    handler mutex; with the flows cancelled no orchestrator wait can hold the mutex any longer
    (C05_cancel_unblocks), and the waits of the shutdown choreography are bounded by their timers:
    at `sRuntime` the fired runtime deadline, at `sGrace` the fired grace timer always let it move on. -/
theorem C07_reset_always_possible (s : State) (k : ShutKind) (from_ : Nat) :
    (s.orch = .sRuntime k → s.rtDeadlineFired = true → (shutResume s from_).isSome = true) ∧
    (s.orch = .sGrace k → s.graceFired = true → (shutResume s from_).isSome = true) := by
  refine ⟨?_, ?_⟩
  · intro ho hf
    simp only [shutResume, ho]
    cases hp : procByFull s (rtFull s) with
    | none => simp
    | some p => by_cases hc : p.chanClosed = true <;> simp [hc, hf]
  · intro ho hf
    simp only [shutResume, ho]
    by_cases hall : (s.procs.filter (·.chanCreated)).all (·.chanClosed) = true <;> simp [hall, hf]

/-- the flows' cancellation is what `requestReset` does first, for every reset -/
theorem C07_reset_cancels_first (s : State) (reason : String) (from_ : Nat) (h : s.cancelDone = false) :
    C05.allCanceled (requestReset s reason from_) := by
  have := (C05.C05_cancel_all { s with resv := s.resv.map fun r => { r with resetStarted := true } } .reset h).1
  simpa [requestReset, C05.allCanceled] using this

/-- **The only bodies a caller can receive.** `sendReply` is called with: the payload the runtime
    posted for the current invocation (`bytes:<hash>` / `empty`), an error the runtime posted
    (`errjson:<type>`), the platform's oversize error, the cached init-error payload, or the
    platform's default error — nothing else is ever written to a caller's writer. (Stated for the
    platform-generated ones; the runtime-posted ones are C14_exact / C01.) -/
theorem C07_platform_bodies (s : State) (errType : String) :
    failureBody s errType = s.cached.getD s!"errjson:{errType}" := rfl

/-- **The events watcher never panics — every reachable state.** `Reach` contains every state the
    emulator passes through from any initial configuration: after each op (any op, timers included) and
    after each internal move under any scheduler variant. In every such state, if a termination event
    waits to be handled then it names a process the orchestrator knows, whose exit channel exists and
    which is no longer alive; handling it raises no crash. (`watchEvents` has two `log.Panic` branches —
    unknown process, missing exit channel — this says both are unreachable. It relies on the
    supervisor emitting one event per process it started, which is C19.) Invariant `Rie.Sys.PInv`,
    `Rie/Proofs/SysProcs.lean`. The other modelled panic site (`trySendDefaultErrorResponse` without a
    reservation) is not covered by a whole-run theorem. -/
theorem C07_watcher_never_panics (s : State) (hr : Reach s) (full : String) (zero : Bool) (rest : List (String × Bool))
    (hq : s.exitQueue = (full, zero) :: rest) :
    (∃ p, procByFull s full = some p ∧ p.chanCreated = true ∧ p.alive = false) ∧
    (watchOne { s with exitQueue := rest } full zero).crashed = s.crashed := by
  have i := pinv_reach hr
  have hx := i.x (full, zero) (by rw [hq]; exact List.mem_cons_self)
  have i' : PInv { s with exitQueue := rest } :=
    ⟨fun e he => i.x e (by rw [hq]; exact List.mem_cons_of_mem _ he), i.y, i.z⟩
  exact ⟨hx, (pinv_watchOne _ full zero i' hx).2⟩

-- non-vacuity: the runtime exits while the caller waits: the op leaves its exit event queued (a reachable
-- state with a non-empty exit queue), the watcher's move handles it without a crash
example :
    let s1 := step 0 (step 0 {} (.invoke 0 5 "h")) .rtNext
    let s2 := applyOp { s1 with out := [] } (.exit "runtime" "code1" false)
    s2.exitQueue = [("runtime-1", false)] ∧ ((progress 0 s2).map (·.crashed)) = some false := by decide

-- non-vacuity: a runtime that sends nonsense in every state, then dies; the emulator is not crashed
example :
    let s := [Op.invoke 0 5 "h", .rtResponse none 1 "x" false, .rtInitError "x", .rtNext, .rtInitError "late",
              .rtResponse (some 7) 1 "x" false, .rtRaw "GET" "/nope", .exit "runtime" "code1" false].foldl (step 0) ({} : State)
    s.crashed = false := by decide

/-- **The scheduler parameter is complete.** The whole-run theorems (here and in C01, C03, C06, C10, C13, C15)
    quantify over a scheduler choice `v` per op; `v` spells one choice *per internal move*, and every list of
    per-move choices is spelt by some `v` — so "for all `v`" is "for every order in which the platform threads,
    the signalled handlers, the woken handlers and the Kill goroutines take their turns", not a set of fixed
    priorities (`Rie/Proofs/SysSched.lean`). -/
theorem C07_every_schedule_covered (ds : List Nat) (s : State) : ∃ v, settle v ds.length s = follow ds s :=
  every_schedule_is_a_v ds s

end Rie.Props.C07
