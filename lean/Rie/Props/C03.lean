import Rie.Proofs.Sys
import Rie.Proofs.SysBarrier
import Rie.Proofs.SysBarrier2
import Rie.Props.Tables

/-!
# C03 — Init barrier: nobody is served before everyone has arrived

> During initialisation every non-directory entry directly under the extensions directory is
> launched exactly once as an external extension named by its base name, the runtime process is
> not started until all of them have registered, and no invocation is delivered to the runtime or
> to any extension until the runtime and every extension whose registration was accepted have
> asked for their next event. Registration is refused once the first invocation has been
> delivered, and if all parties do arrive initialisation completes, whatever the arrival order.

Model: `startInit`/`launchExtensions` (doInitExtensions), `orchResume` at the three init waits
(doRuntimeDomainInit), the agent and runtime programs' flow arrivals. Tie: stackdrv families
healthy / noext / misuse (0..3 external × 0..2 internal extensions, every subscription set, random
arrival orders, directories in the extensions directory), judged by the model and by the
model-free monitor `mon_init_barrier` (log order only).

Proved here: the guards of each orchestrator step, the single-arrival facts about the agent
programs, and BOTH barriers as whole-run invariants: `C03_runtime_after_registered` (the runtime
object exists only when every launched extension has registered — `Rie.Sys.BInv`) and
`C03_init_done_after_everyone_asked` (the init is done, hence the first invocation dispatched, only
when every agent's first `next` has been counted by the agents-ready gate — `Rie.Sys.B2Inv`, with
the ghost bit `Agent.asked`). Liveness ("if all parties do arrive initialisation completes") is not
a theorem: on the real stack it is the rule of `mon_init_barrier` that exposed finding F14.
-/
namespace Rie.Props.C03
open Rie.Sys Rie.SM

/-- an open, not cancelled latch has exactly its expected number of arrivals -/
theorem open_means_all_arrived (g : Latch) (ho : g.isOpen = true) (hc : g.canceled = false) : g.arrived = g.count := by
  simpa [Latch.isOpen, hc] using ho

/-- **The runtime is started only behind the registration barrier** (partial: per-step form).
    Waiting in `iAwaitRegistered` the orchestrator
    * stays blocked while the gate is closed — the runtime is not started;
    * fails the init (no runtime is started) if the gate was cancelled;
    * and only with the gate open and not cancelled — `arrived = count` = number of launched
      extensions — preregisters and executes the runtime. -/
theorem C03_runtime_after_registered_partial (s : State) (ph : Phase) (ho : s.orch = .iAwaitRegistered ph) :
    (s.initFlow.extRegistered.isOpen = false → orchResume s = none) ∧
    (s.initFlow.extRegistered.isOpen = true → s.initFlow.extRegistered.canceled = true →
        orchResume s = some (initFinish s ph false "success" (gateErr s.initFlow.extRegistered))) ∧
    (s.initFlow.extRegistered.isOpen = true → s.initFlow.extRegistered.canceled = false → s.regOn = true →
        s.initFlow.extRegistered.arrived = s.initFlow.extRegistered.count ∧
        ∃ s', orchResume s = some s' ∧ s'.orch = .iAwaitRestoreReady ph ∧ s'.rt = some .started ∧
          s'.out = s.out ++ [.line s!"sup exec:{({ name := "runtime", gen := s.gen, chanCreated := true } : Proc).full}"]) := by
  refine ⟨?_, ?_, ?_⟩
  · intro h; simp [orchResume, ho, h]
  · intro h hc; simp [orchResume, ho, h, hc]
  · intro h hc hr
    refine ⟨open_means_all_arrived _ h hc, ?_⟩
    simp [orchResume, ho, h, hc, hr, State.emit]

/-- **Launch: one process per file, once.** One step of the launch loop for file `p` (registration
    open, name not yet known, room below the limit, the supervisor can execute the file): one agent named `p` is created in `Started`,
    one process `extension-p-<gen>` is executed (its exit channel exists from then on), and the loop
    goes on with the remaining files; `launchExtensions` recurses structurally over the file list, so
    every file is visited exactly once. -/
theorem C03_launch_step (s : State) (ph : Phase) (p : String) (ps : List String)
    (hreg : s.regOn = true) (hp : findAgent s p = none) (hroom : s.agents.length + 1 ≤ maxAgents)
    (hx : s.execFails.contains p = false) :
    launchExtensions s ph (p :: ps) =
      launchExtensions (({ s with agents := s.agents ++ [{ name := p, ext := true, serial := s.nextSerial }],
                                  nextSerial := s.nextSerial + 1,
                                  procs := s.procs ++ [{ name := p, gen := s.gen, chanCreated := true }] } : State).emit
                         s!"sup exec:{({ name := p, gen := s.gen, chanCreated := true } : Proc).full}") ph ps := by
  have hlen : ¬ (s.agents.length + 1 > maxAgents) := by omega
  simp only [launchExtensions, hreg, Bool.not_true, hp, Option.isSome_none, Bool.or_self, Bool.false_eq_true,
    ↓reduceIte, List.length_append, List.length_cons, List.length_nil, Nat.zero_add, hlen, hx]

/-- **An extension that cannot be launched** (the supervisor's Exec fails): it exists as an agent in
    `LaunchError` with error type `UnknownError`, `Extension.LaunchError` is the first fatal error
    unless one was recorded before, no process and no exit channel exist for it (so a later reset has
    nothing to signal or wait for), the remaining files are not launched and the init fails. -/
theorem C03_launch_failure (s : State) (ph : Phase) (p : String) (ps : List String)
    (hreg : s.regOn = true) (hp : findAgent s p = none) (hroom : s.agents.length + 1 ≤ maxAgents)
    (hx : s.execFails.contains p = true) :
    launchExtensions s ph (p :: ps) =
      initFinish (storeFatal ((setAgent { s with agents := s.agents ++ [{ name := p, ext := true, serial := s.nextSerial }],
                                                  nextSerial := s.nextSerial + 1 }
                                 { name := p, ext := true, st := .launchError, errSet := true, errType := "UnknownError", serial := s.nextSerial }).emit
                               s!"sup execfail:{extFull p s.gen}") "Extension.LaunchError") ph false "success" none ∧
    (storeFatal ((setAgent { s with agents := s.agents ++ [{ name := p, ext := true, serial := s.nextSerial }],
                                    nextSerial := s.nextSerial + 1 }
                   { name := p, ext := true, st := .launchError, errSet := true, errType := "UnknownError", serial := s.nextSerial }).emit
                 s!"sup execfail:{extFull p s.gen}") "Extension.LaunchError").procs = s.procs := by
  have hlen : ¬ (s.agents.length + 1 > maxAgents) := by omega
  refine ⟨?_, ?_⟩
  · simp only [launchExtensions, hreg, Bool.not_true, hp, Option.isSome_none, Bool.or_self, Bool.false_eq_true,
      ↓reduceIte, List.length_append, List.length_cons, List.length_nil, Nat.zero_add, hlen, hx]
    rfl
  · unfold storeFatal; split <;> rfl

/-- the gate is armed with the number of extension files before anything is launched -/
theorem C03_count_is_files (s : State) (ph : Phase) (hok : s.extFiles.length ≥ s.initFlow.extRegistered.arrived) :
    startInit s ph =
      launchExtensions { (s.emitEv .initStart ph.str) with
          gen := s.gen + 1, rtDoneReg := false,
          initFlow := { s.initFlow with extRegistered := { s.initFlow.extRegistered with count := s.extFiles.length } } }
        ph s.extFiles := by
  have : ¬ (s.extFiles.length < s.initFlow.extRegistered.arrived) := by omega
  simp [startInit, Latch.setCount, this, State.emitEv]

/-- **Single arrival.** Among all programs of an external extension the registration barrier is
    walked only by `register` from `Started`, and no program ever returns an agent to `Started`:
    each launched extension arrives at most once per generation. -/
theorem C03_single_arrival (st : ExtState) (c : AgCall) (is : List (Instr ExtState)) (h : extProg st c = some is) :
    ((is.any fun i => match i with | .flow .initExternalAgentRegistered _ => true | _ => false) = true →
        st = .started ∧ ∃ es, c = .register es) ∧
    ((is.any fun i => match i with | .set .started => true | _ => false) = false) := by
  cases st <;> cases c <;> simp [extProg] at h <;> subst h <;> simp

/-- **Nobody is served before everyone has arrived**: the orchestrator leaves `iAwaitAgentsReady`
    towards "init done" (after which the first invocation is dispatched) only with the agents-ready
    gate open and not cancelled, i.e. as many `next` arrivals as registered agents; and before
    waiting there it has closed registration (`TurnOff`) and needed the runtime's own arrival. -/
theorem C03_delivery_guard (s : State) (ph : Phase) (ho : s.orch = .iAwaitAgentsReady ph) :
    (s.initFlow.agentReady.isOpen = false → orchResume s = none) ∧
    (s.initFlow.agentReady.isOpen = true → s.initFlow.agentReady.canceled = false →
        s.initFlow.agentReady.arrived = s.initFlow.agentReady.count ∧
        orchResume s = some (initFinish { s with initDone := true } ph true "success" none)) := by
  refine ⟨?_, ?_⟩
  · intro h; simp [orchResume, ho, h]
  · intro h hc
    exact ⟨open_means_all_arrived _ h hc, by simp [orchResume, ho, h, hc]⟩

/-- registration is closed, and the agents-ready count fixed to the number of registered agents,
    when the runtime has arrived (its first `next` walks the restore-ready gate) -/
theorem C03_registration_closed (s : State) (ph : Phase) (ho : s.orch = .iAwaitRestoreReady ph)
    (hop : s.initFlow.restoreReady.isOpen = true) (hc : s.initFlow.restoreReady.canceled = false)
    (hcnt : s.agents.length ≥ s.initFlow.agentReady.arrived) :
    ∃ s', orchResume s = some s' ∧ s'.regOn = false ∧ s'.initFlow.agentReady.count = s.agents.length ∧
      s'.orch = .iAwaitAgentsReady ph := by
  have : ¬ (s.agents.length < s.initFlow.agentReady.arrived) := by omega
  simp [orchResume, ho, hop, hc, Latch.setCount, this]

/-- **The runtime exists only after every launched extension has registered — whole runs.** From
    any initial configuration (no agents, no runtime object, orchestrator idle, fresh gate; any list
    of extension files, any timeout, either mode), after any sequence of ops — registrations in any
    order and with any malformed variants, polls, error reports, exits at any point, invocations,
    timeouts, resets, shutdowns, restores, every timer firing — under any scheduler choices: whenever
    the runtime object exists (it is created immediately before the runtime process is exec'd and
    lives until the reset), every extension file has been launched, in order, and no external
    extension is still `Started`: each has registered (or gone on from there). Moreover the gate's
    arrivals always equal the number of registered external extensions and its count is never below
    the number of external extensions, so a registration's arrival is never refused by the gate.
    Invariant `Rie.Sys.BInv`, `Rie/Proofs/SysBarrier.lean` (one lemma per model function; the
    orchestrator passes the gate only with `arrived = count`, `binvO_orchResume`). Not covered here:
    the second barrier (agents-ready before the first dispatch), which stays step-level
    (`C03_delivery_guard`). -/
theorem C03_runtime_after_registered (s0 : State) (h0 : InitialB s0) (ops : List (Nat × Op)) :
    let s := (run s0 [] ops).1
    (s.rt.isSome = true →
      (s.agents.filter (·.ext)).map (·.name) = s.extFiles ∧ ∀ a ∈ s.agents, a.ext = true → a.st ≠ .started) ∧
    s.initFlow.extRegistered.arrived = (s.agents.filter fun a => a.ext && a.st != .started && a.st != .launchError).length ∧
    (s.agents.filter (·.ext)).length ≤ s.initFlow.extRegistered.count := by
  have hA : AInv s0 := by show AInvL s0.agents; rw [h0.agents]; exact ⟨by simp, by simp⟩
  obtain ⟨_, i⟩ := abinv_run s0 [] ops hA (binv_initial s0 h0)
  exact ⟨i.rt, i.arr, i.cap⟩

-- non-vacuity: two extensions; the runtime object appears only with the second registration
example :
    let s0 : State := { extFiles := ["a", "b"] }
    let s1 := (run s0 [] [(0, .invoke 0 1 "h"), (0, .register "a" [.invoke] "")]).1
    let s2 := (run s0 [] [(0, .invoke 0 1 "h"), (0, .register "a" [.invoke] ""), (0, .register "b" [] "")]).1
    s1.rt = none ∧ s2.rt = some .started ∧ s2.initFlow.extRegistered.arrived = 2 := by decide

-- non-vacuity: two extensions; the runtime is executed exactly when the second registration arrives;
-- nothing is delivered until the runtime and both extensions have asked for next
example :
    let s0 : State := { extFiles := ["a", "b"] }
    let s1 := step 0 s0 (.invoke 0 5 "h")
    let s2 := step 0 s1 (.register "a" [.invoke] "")
    let s3 := step 0 s2 (.register "b" [] "")
    let s4 := step 0 (step 0 s3 .rtNext) (.agNext "a" "")
    let s5 := step 0 s4 (.agNext "b" "")
    s1.outs = ["ev initStart:init", "sup exec:extension-a-1", "sup exec:extension-b-1"] ∧
    s2.outs = ["a.register=200,meta=ok"] ∧ s3.outs = ["b.register=200,meta=ok", "sup exec:runtime-1"] ∧
    s4.outs = [] ∧ s5.outs.contains "rt.next=200,id#1,body=h,arn=ok,ctx=ctx0" = true ∧
    s5.outs.contains "a.next=200,INVOKE,id#1,arn=ok,trace" = true := by decide


/-- **Initialisation completes only after every accepted extension has asked for its next event —
    whole runs.** `asked` is a ghost bit of the model's agents, set exactly when the agent's first
    `next` walks the init flow's agents-ready gate and the gate counts the arrival (`runAgInstrs`).
    From any initial configuration (no agents, fresh gate, init not done, orchestrator idle; any
    extension files, timeout, mode), after any sequence of ops — registrations in any order, polls,
    error reports, exits, launch failures, invocations, timeouts, resets, shutdowns, restores, every
    timer firing — under any scheduler choices:
    * the gate's arrivals always equal the number of agents that have asked;
    * an agent that has not made its first `next` (`Started`, `Registered`) has not asked;
    * whenever the init is done (`initDone`, set only when the orchestrator has passed the gate; the
      first invocation of a generation is dispatched only then, `C03_dispatch_needs_init_done`),
      registration is closed, the gate expects exactly the existing agents, and EVERY agent —
      external and internal — has asked for its next event.
    Invariant `Rie.Sys.B2Inv`, `Rie/Proofs/SysBarrier2.lean` (one lemma per model function; the
    orchestrator closes registration and sets the expected count in one move, `b2invO_orchResume`).
    The runtime's own arrival is the step-level `C03_registration_closed` (the orchestrator reaches
    the agents gate only through the runtime's first `next`). -/
theorem C03_init_done_after_everyone_asked (s0 : State) (h0 : InitialB2 s0) (ops : List (Nat × Op)) :
    let s := (run s0 [] ops).1
    s.initFlow.agentReady.arrived = (s.agents.filter (·.asked)).length ∧
    (∀ a ∈ s.agents, (a.st = .started ∨ a.st = .registered) → a.asked = false) ∧
    (s.initDone = true →
      s.regOn = false ∧ s.initFlow.agentReady.count = s.agents.length ∧ ∀ a ∈ s.agents, a.asked = true) := by
  have hA : AInv s0 := by show AInvL s0.agents; rw [h0.agents]; exact ⟨by simp, by simp⟩
  obtain ⟨_, i⟩ := ab2inv_run s0 [] ops hA (b2inv_initial s0 h0)
  refine ⟨i.arr, ?_, ?_⟩
  · intro a ha hst
    apply i.fresh a ha
    rcases hst with h | h <;> simp [early, h]
  · intro hd
    obtain ⟨d1, d2, _⟩ := i.done hd
    exact ⟨d1, d2, all_asked_of_done i hd⟩

/-- an invocation request that finds the init not done does not dispatch: it runs the init first
    (inline), and only its successful end — behind the gate — continues to the dispatch -/
theorem C03_dispatch_needs_init_done (s : State) (k c : Nat) (h : String) (hnd : s.initDone = false) :
    startHandler s (.invoke k c h) =
      startInit { s with curInv := some (k, c, h),
                         flights := s.flights.map fun f => if f.g4 == .waitMutex then { f with g4 := .running } else f } .invoke := by
  simp [startHandler, hnd]

-- non-vacuity: two extensions (one external, one internal) and the runtime; the init is done only
-- when the last of them has asked, whatever the order
example :
    let s0 : State := { extFiles := ["a"] }
    let pre := [(0, Op.invoke 0 1 "h"), (0, .register "a" [.invoke] ""), (0, .register "i0" [.invoke] ""), (0, .rtNext)]
    let s1 := (run s0 [] (pre ++ [(0, .agNext "a" "")])).1
    let s2 := (run s0 [] (pre ++ [(0, .agNext "a" ""), (0, .agNext "i0" "")])).1
    s1.initDone = false ∧ s1.agents.map (·.asked) = [true, false] ∧
    s2.initDone = true ∧ s2.agents.map (·.asked) = [true, true] ∧ s2.initFlow.agentReady.arrived = 2 := by decide +kernel

end Rie.Props.C03
