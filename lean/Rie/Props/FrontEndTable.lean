import Rie.Model.FrontEnd
import Rie.Gen.FrontEnd

/-! (T) obligation: the front end's error switch as read from the current source equals the model's
table, case by case, and so does the tail. No action is unrecognised. -/
namespace Rie.Props.FrontEndTable
open Rie.FrontEnd

theorem gen_frontend_matches :
    Rie.Gen.feCases.map (fun c => (c.1, c.2.map parseAct)) = table ∧ Rie.Gen.feTail.map parseAct = tail := by decide

end Rie.Props.FrontEndTable
