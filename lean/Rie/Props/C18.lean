import Rie.Proofs.Sys
import Rie.Props.Tables
import Rie.Props.RoutesTable

/-!
# C18 — Snapshot restore protocol and credential endpoint

> In snapshot mode, a restore request succeeds only after the runtime that was parked on its
> restore poll has run its hook and asked for the next invocation; it fails with a timeout error no
> later than shortly after the hook timeout if the runtime does neither, with the runtime's
> sanitised error type if it reports a restore (or init) error, and returns at once if the runtime
> never entered the restore poll. Temporary credentials are served only to requests bearing the
> per-instance token placed in the runtime's environment, are themselves not placed in that
> environment, and reflect the most recent restore.

Model: `handleRestore`, `restoreResume`, `restoreFinish`, the `restoreHook` timer, `rtRestoreError`,
`rtCreds` in `Rie.Sys` (handleRestore in handlers.go, AwaitRuntimeReadyWithDeadline in flow.go, the
restore handlers, credentials.go) on top of the runtime programs (tables). The sanitisation of the
reported type is C20's. Tie: stackdrv family `restore` (snapshot mode: all orders of restore
request, restore poll, hook completion / error / timeout, runtime exit; credentials probes with the
right, wrong and empty token before and after restores; the Exec environment of the runtime is
inspected for key material by the monitor `mon_restore`). "Shortly after the hook timeout" is
measured, not proved.
-/
namespace Rie.Props.C18
open Rie.Sys Rie.SM

/-- **Returns at once if the runtime never entered the restore poll.** -/
theorem C18_restore_immediate (s : State) (key k0 : String) (hk : s.credKey = some k0) (hrt : s.rt ≠ some .restoreReady) :
    handleRestore s key =
      (restoreDoneEvent { s with credKey := some key, renderer := .restore } true).emit "restore done err=ok" := by
  have : (s.rt != some RtState.restoreReady) = true := by simpa using hrt
  simp [handleRestore, hk, this]

/-- **Otherwise it releases the parked runtime and waits** for the runtime-ready gate of the init
    flow or the hook deadline — it does not answer yet. -/
theorem C18_restore_waits (s : State) (key k0 : String) (hk : s.credKey = some k0) (hrt : s.rt = some .restoreReady) :
    handleRestore s key =
      { s with credKey := some key, renderer := .restore, rtFlag := true, restoreWaiting := true,
               timers := s.timers ++ [.restoreHook] } := by
  simp [handleRestore, hk, hrt]

/-- the gate the restore waits on is walked only by the runtime's `next` (from `Started` or from
    `Restoring`, i.e. after the hook): **success needs the runtime to have asked for next** -/
theorem C18_success_needs_next (st : RtState) (c : RtCall) (is : List (Instr RtState)) (h : rtProg st c = some is) :
    (is.any fun i => match i with | .flow .initRuntimeReady _ => true | _ => false) = true →
      c = .ready ∧ (st = .started ∨ st = .restoring) := by
  cases st <;> cases c <;> simp [rtProg] at h <;> subst h <;> simp

/-- while the gate is closed the restore stays pending; open and not cancelled → success -/
theorem C18_restore_success_iff (s : State) (hw : s.restoreWaiting = true) (hf : s.fatal = none) :
    (s.initFlow.runtimeReady.isOpen = false → restoreResume s = none) ∧
    (s.initFlow.runtimeReady.isOpen = true → s.initFlow.runtimeReady.canceled = false →
        restoreResume s = some ((restoreDoneEvent { s with restoreWaiting := false, timers := s.timers.filter (· != Timer.restoreHook) } true).emit
          "restore done err=ok")) := by
  refine ⟨?_, ?_⟩
  · intro h; simp [restoreResume, hw, h]
  · intro h hc; simp [restoreResume, hw, h, hc, restoreFinish, hf]

/-- **Hook timeout**: the deadline ends the wait with Runtime.RestoreHookUserTimeout and cancels the
    init flow (so the parked runtime call cannot complete the init behind the platform's back). -/
theorem C18_timeout (s : State) (hw : s.restoreWaiting = true) (ht : Timer.restoreHook ∈ s.timers) (hf : s.fatal = none) :
    let s' := applyOp s (.timer .restoreHook)
    s'.restoreWaiting = false ∧ s'.initFlow.runtimeReady.canceled = true ∧
    s'.out = s.out ++ [.line "ev restoreRuntimeDone:error:Runtime.Unknown", .line "restore done err=Runtime.RestoreHookUserTimeout"] := by
  simp [applyOp, ht, hw, restoreFinish, cancelInitFlow, Latch.cancel, hf, restoreDoneEvent, State.emit]
  exact ⟨by decide, by decide⟩

/-- **Reported error**: a restore error (or an init error while restoring) moves the runtime to
    RestoreError and cancels the init flow with the user error; the pending restore then fails with
    that type, sanitised by the C20 model (`Rie.ErrType.sanitize`, see `C20_errtype_closed`). -/
theorem C18_user_error (s : State) (et : String) (hrt : s.rt = some .restoring) :
    let s' := rtRestoreError s et
    s'.rt = some .restoreError ∧ s'.initFlow.runtimeReady.canceled = true ∧
    s'.initFlow.runtimeReady.err = some .restoreUser ∧ s'.restoreUserType = sanitizeType et := by
  simp [rtRestoreError, hrt, rtProg, runRtInstrs, flowCall, cancelInitFlow, Latch.cancel, reply, State.emit]

theorem C18_user_error_result (s : State) (hw : s.restoreWaiting = true) (hf : s.fatal = none)
    (hc : s.initFlow.runtimeReady.canceled = true) (he : s.initFlow.runtimeReady.err = some .restoreUser) :
    ∃ s', restoreResume s = some s' ∧ s'.out = s.out ++ [.line "ev restoreRuntimeDone:error:Runtime.Unknown",
      .line s!"restore done err={s!"userError:{s.restoreUserType}"}"] := by
  have ho : s.initFlow.runtimeReady.isOpen = true := by simp [Latch.isOpen, hc]
  refine ⟨_, by simp [restoreResume, hw, ho, hc, he]; rfl, ?_⟩
  simp [restoreFinish, hf, restoreDoneEvent, State.emit]
  decide

/-- a recorded fatal error (e.g. the runtime exited) overrides whatever the wait returned -/
theorem C18_first_fatal_overrides (s : State) (t : String) (e : Option String) (hf : s.fatal = some t) :
    (restoreFinish s e).out = s.out ++ [.line s!"ev restoreRuntimeDone:error:{t}", .line s!"restore done err={t}"] := by
  simp [restoreFinish, hf, restoreDoneEvent, State.emit]
  decide

/-- **Credentials**: served only in snapshot mode, only for the instance token, and they are the
    ones of the most recent restore. -/
theorem C18_credentials (s : State) (tok : String) :
    (s.credKey = none → rtCreds s tok = reply s "rt" s!"creds:{tok}" "404") ∧
    (∀ k, s.credKey = some k → tok ≠ "good" → rtCreds s tok = reply s "rt" s!"creds:{tok}" "404") ∧
    (∀ k, s.credKey = some k → tok = "good" → rtCreds s tok = reply s "rt" s!"creds:{tok}" s!"200,key={k}") := by
  refine ⟨?_, ?_, ?_⟩
  · intro h; simp [rtCreds, h]
  · intro k h hne
    have : (tok == "good") = false := by simpa using hne
    simp [rtCreds, h, this]
  · intro k h ht; subst ht; simp [rtCreds, h]

theorem C18_creds_latest (s : State) (key k0 : String) (hk : s.credKey = some k0) :
    (handleRestore s key).credKey = some key := by
  simp only [handleRestore, hk]
  split <;> simp [restoreDoneEvent, State.emit]

-- non-vacuity: the whole protocol: init, restore poll, restore request, hook, next → success
example :
    let s0 : State := { snapshot := true }
    let s := [Op.init, .rtRestoreNext, .restore "K2", .rtNext].foldl (step 0) s0
    s.outs = ["ev restoreRuntimeDone:success:-", "restore done err=ok"] ∧
    (step 0 s (.rtCreds "good")).outs = ["rt.creds:good=200,key=K2"] ∧ (step 0 s (.rtCreds "x")).outs = ["rt.creds:x=404"] := by
  decide

/-- **Snapshot-only routes — in the source.** In the route table read from `lambda/rapi/router.go`
    and `server.go` on every run, the restore poll, the restore error report and the credentials
    endpoint are the routes registered under `InitCaching` only, and nothing else is. -/
theorem C18_snapshot_routes_in_source :
    (Rie.Gen.routes.filter (·.2.2.1 == "snapshot")).map (fun r => (r.1, r.2.1)) =
      [("GET", "/2018-06-01/runtime/restore/next"), ("POST", "/2018-06-01/runtime/restore/error"),
       ("GET", "/2021-04-23/credentials")] := by
  rw [RoutesTable.gen_routes_match]; decide

end Rie.Props.C18
