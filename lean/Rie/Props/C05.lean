import Rie.Proofs.Sys
import Rie.Proofs.SysInv

/-!
# C05 — Timeout: bounded answer, full teardown, fresh environment next

> An invocation that has not completed when the configured function timeout expires is answered
> with the timeout outcome no later than the timeout plus the fixed reset allowance, in whichever
> phase the time runs out (extension registration, runtime init, waiting for the response, waiting
> for extensions). Every process of that execution environment is terminated (killed if
> necessary) before the answer is given, and the next invocation is served by freshly started
> processes. A response that arrives around the moment of expiry leads to either the response or
> the timeout outcome, never to both, a hang or a crash.

Model: `Rie.Sys` — the timer op `timer invoke:<c>`, `requestReset` (Server.Reset + HandleReset's
CancelFlows), `orchResume` (every orchestrator wait), the shutdown choreography and `resetTail`.
The proofs are about order (time-free); the wall-clock bound (timeout + 2 s + 2 s + slack) is
measured one-sidedly by the monitor `mon_timeout` on the real stack. Tie: stackdrv families
`timeouts`, `chaos`, `shutdown` (a stall in every phase; expiry racing with responses).
-/
namespace Rie.Props.C05
open Rie.Sys Rie.SM

def allCanceled (s : State) : Prop :=
  s.initFlow.extRegistered.canceled = true ∧ s.initFlow.runtimeReady.canceled = true ∧
  s.initFlow.agentReady.canceled = true ∧ s.initFlow.restoreReady.canceled = true ∧
  s.invFlow.runtimeReady.canceled = true ∧ s.invFlow.runtimeResponse.canceled = true ∧
  s.invFlow.agentReady.canceled = true

/-- `CancelFlows` cancels every gate of both flows … -/
theorem C05_cancel_all (s : State) (e : CErr) (h : s.cancelDone = false) :
    allCanceled (cancelFlows s e) ∧ (cancelFlows s e).cancelDone = true := by
  simp [cancelFlows, h, allCanceled, Latch.cancel]

/-- … and only the first cancellation of a generation takes effect (`cancelOnce`). -/
theorem C05_first_cancel_wins (s : State) (e : CErr) (h : s.cancelDone = true) : cancelFlows s e = s := by
  simp [cancelFlows, h]

/-- **Cancellation unblocks every orchestrator wait.** Whatever gate the handler thread is waiting
    on — in init or in invoke — once the flows are cancelled it can resume (and will fail the
    handler, releasing the handler mutex for the reset). -/
theorem C05_cancel_unblocks (s : State) (hc : allCanceled s) :
    (∀ ph, s.orch = .iAwaitRegistered ph → (orchResume s).isSome = true) ∧
    (∀ ph, s.orch = .iAwaitRestoreReady ph → (orchResume s).isSome = true) ∧
    (∀ ph, s.orch = .iAwaitAgentsReady ph → (orchResume s).isSome = true) ∧
    (s.orch = .vAwaitResponse → (orchResume s).isSome = true) ∧
    (s.orch = .vAwaitRuntimeReady → (orchResume s).isSome = true) ∧
    (s.orch = .vAwaitAgentsReady → (orchResume s).isSome = true) := by
  obtain ⟨h0, h1, h2, h3, h4, h5, h6⟩ := hc
  refine ⟨?_, ?_, ?_, ?_, ?_, ?_⟩ <;> intros <;> simp_all [orchResume, Latch.isOpen]

/-- **The timeout is always armed — whole runs.** In every state reachable from an initial
    configuration by any ops under any scheduler choices (distinct caller numbers), every call that
    still waits in `Server.Invoke`'s main select has its function-timeout timer armed: no
    invocation can wait without its timeout pending, whatever the runtime, the extensions or the
    processes did or failed to do. (`C05_expiry` below says what the firing does.) -/
theorem C05_timeout_armed (s0 : State) (h0 : Initial s0) (ops : List (Nat × Op)) (hfresh : (submitted ops).Nodup) :
    ∀ f ∈ (run s0 [] ops).1.flights, f.g0 = .selecting → Timer.invoke f.caller ∈ (run s0 [] ops).1.timers := by
  have i := inv_run s0 ops (inv_initial s0 h0) (by simpa using hfresh)
  intro f hf hs
  exact mem_invT.mp (i.armed f.caller (mem_selv.mpr ⟨f, hf, rfl, by simp [hs]⟩))

/-- **Expiry.** When the timer of a caller that is still waiting fires, a reset with reason Timeout
    is queued for the handler mutex, the flows are cancelled (if they were not already) and the
    reservation is marked as being torn down, so nothing can attach to it any more. -/
theorem C05_expiry (s : State) (f : Flight) (c : Nat)
    (ht : Timer.invoke c ∈ s.timers)
    (hf : s.flights.find? (fun f => f.caller == c && f.g0 == .selecting) = some f) :
    let s' := applyOp s (.timer (.invoke c))
    s'.queue = s.queue ++ [.reset "Timeout" 1] ∧ s'.cancelDone = true ∧
    (s'.resv.map (·.resetStarted)) = s.resv.map (fun _ => true) := by
  have ht' : s.timers.contains (Timer.invoke c) = true := by simpa using ht
  simp only [applyOp, ht', Bool.not_true, Bool.false_eq_true, ↓reduceIte]
  have hf' : List.find? (fun f => f.caller == c && f.g0 == G0PC.selecting)
      ({ s with timers := s.timers.filter (· != Timer.invoke c) }).flights = some f := hf
  simp only [hf']
  refine ⟨rfl, ?_, ?_⟩
  · simp only [setFlight, requestReset, cancelFlows]
    split <;> simp_all
  · simp only [setFlight, requestReset, cancelFlows]
    split <;> cases s.resv <;> simp_all

/-- **The timeout outcome is given only after the reset for it has run to its end.** The caller's
    main goroutine waits in `timeoutResetWait`; it is moved on (to `timeoutAwaitRelease`, from where
    the outcome is produced) by `resetTail 1` and by nothing else in the model — that is: after the
    shutdown choreography has finished (every process reaped or the 2 s grace elapsed,
    `shutResume` at `sGrace`) and the orchestrator and server state have been cleared. -/
theorem C05_release_point (s : State) (f : Flight) (hf : f ∈ s.flights) (h0 : f.g0 = .timeoutResetWait) :
    { f with g0 := G0PC.timeoutAwaitRelease } ∈ (resetTail s 1).flights := by
  simp only [resetTail, release]
  apply List.mem_map.mpr
  exact ⟨f, hf, by simp [h0]⟩

/-- **Fresh environment.** After a reset has completed the generation number has grown, no
    extension and no runtime object is left, registration is open again, `initDone` is false (the
    next invocation initialises a new environment) and every gate is re-armed. -/
theorem C05_fresh_after (s : State) (from_ : Nat) :
    let s' := resetTail (afterReset s from_) from_
    s'.gen = s.gen + 1 ∧ s'.agents = [] ∧ s'.rt = none ∧ s'.regOn = true ∧ s'.initDone = false ∧
    s'.cancelDone = false ∧ s'.resv = none ∧ s'.initFlow.extRegistered.canceled = false ∧
    s'.invFlow.runtimeResponse.canceled = false := by
  simp only [resetTail, afterReset, release]
  split <;> simp [Latch.clear, State.emit]

-- non-vacuity: a runtime that never answers; the timer fires; the runtime is killed, and only
-- then (reset tail) the caller gets the timeout outcome
example :
    let s := step 0 (step 0 {} (.invoke 0 5 "h")) .rtNext
    let t := step 0 s (.timer (.invoke 0))
    let u := step 0 t (.timer (.resetTail 1))
    t.outs = ["sup kill:runtime-1", "sup exited:runtime-1:sig9"] ∧ t.timers = [.resetTail 1] ∧
    u.outs = ["caller0 done err=InvokeTimeout body=empty"] := by decide

end Rie.Props.C05
