import Rie.Proofs.Supervisor

/-!
# C19 — Local supervisor: one truthful exit event per process, kill means gone

> Every process started through the local supervisor produces exactly one termination event
> carrying its true exit status or terminating signal. Kill returns success only once the process
> has terminated, takes the whole process group with it, succeeds for a process that already exited,
> fails with an error for unknown names, past deadlines or if the process outlives the deadline;
> Terminate delivers SIGTERM to the group without waiting.

The theorems are about the supervisor's BOOKKEEPING (`Rie.Supervisor`): process table, name map,
`termination` closed/open, emitted events, return class of each call. They quantify over an arbitrary
(unbounded) list of operations = every order of Exec (successful or not, names reused or not),
Terminate, Kill (deadline over or not, process dying in time or not), natural or forced exits of any
process with any status, any number of processes. What the kernel does (does SIGKILL reach the whole
group, does `Wait` report the true status, is a reaped pid gone) is NOT proved here: the exit of a
process and its status enter the model as environment steps; that part of C19 is sampled by the
`supdrv` harness against real `/bin/sh` children.
-/
namespace Rie.Props.C19
open Rie.Supervisor

/-- **Exactly one truthful event per exited process, none for a live one.** After any history:
    (1) for every model pid the number of termination events is 1 if that process has exited and 0
    otherwise (in particular never more than one per successful `Exec`);
    (2) for every name the number of events carrying that name equals the number of successful
    `Exec`s of that name whose process has exited;
    (3) every event names the process it belongs to and carries the status that process exited with. -/
theorem C19_one_event (ops : List Op) :
    let s := run init ops
    (∀ pid, evCountPid s pid = pidExitedFlag s pid ∧ evCountPid s pid ≤ 1) ∧
    (∀ n, evCountName s n = exitedCountName s n ∧ exitedCountName s n ≤ ops.countP (isExec n)) ∧
    (∀ e ∈ s.events, s.procs[e.pid]? = some ⟨e.name, .exited e.status⟩) := by
  intro s
  have h : Inv s := inv_run inv_init ops
  refine ⟨?_, ?_, h.truthful⟩
  · intro pid
    refine ⟨h.perPid pid, ?_⟩
    rw [h.perPid pid]
    unfold pidExitedFlag
    split
    · split <;> omega
    · omega
  · intro n
    refine ⟨h.perName n, ?_⟩
    have hs := run_started init ops n
    have h0 : startedCountName init n = 0 := by simp [startedCountName, init]
    rw [h0, Nat.zero_add] at hs
    show exitedCountName (run init ops) n ≤ _
    rw [← hs]
    unfold exitedCountName startedCountName
    apply List.countP_mono_left
    intro p _ hp
    simp only [Bool.and_eq_true] at hp
    exact hp.1

/-- The process table holds exactly the successful `Exec`s: per name, as many processes as successful
    `Exec` calls with that name (a second `Exec` of a live name is not refused, it starts a second
    process). -/
theorem C19_execs_counted (ops : List Op) (n : Nat) :
    startedCountName (run init ops) n = ops.countP (isExec n) := by
  have hs := run_started init ops n
  have h0 : startedCountName init n = 0 := by simp [startedCountName, init]
  omega

/-- **The event's status is the status of the exit step.** When a running process ends with status
    `st`, exactly one event `(pid, its name, st)` is appended and the process is recorded as exited
    with `st`. -/
theorem C19_event_status_is_exit_status (s : Sup) (pid nm : Nat) (st : Status)
    (h : s.procs[pid]? = some ⟨nm, .running⟩) :
    (step s (.exit pid st)).1.events = s.events ++ [⟨pid, nm, st⟩] ∧
    (step s (.exit pid st)).1.procs[pid]? = some ⟨nm, .exited st⟩ := by
  have hlt : pid < s.procs.length := by
    obtain ⟨h', _⟩ := List.getElem?_eq_some_iff.mp h
    exact h'
  simp only [step]
  rw [exitProc_running st h]
  exact ⟨rfl, List.getElem?_set_self hlt⟩

/-- An exit step for a process that is not running (unknown pid, or already exited) changes nothing:
    no second event. -/
theorem C19_exit_once (s : Sup) (pid : Nat) (st : Status)
    (h : ∀ nm, s.procs[pid]? ≠ some ⟨nm, .running⟩) : (step s (.exit pid st)).1 = s := by
  simp only [step]
  exact exitProc_not_running st h

/-- Once exited, a process keeps its recorded status through every later history, and emitted events
    are never retracted or rewritten (the event list only grows at the end). -/
theorem C19_exited_stable (s : Sup) (ops : List Op) :
    (∀ (q nm : Nat) (st : Status), s.procs[q]? = some (⟨nm, .exited st⟩ : Proc) →
        (run s ops).procs[q]? = some (⟨nm, .exited st⟩ : Proc)) ∧
    (∃ l, (run s ops).events = s.events ++ l) :=
  ⟨fun _ _ _ h => run_keeps_exited ops h, run_events_prefix s ops⟩

/-- **Kill.** In every state (reachable or not), for every name and every answer of the environment:
    (1) `Kill` returns ok only if, in the post-state, the name maps to a process that has exited;
    (2) a name whose process already exited: ok, state unchanged — whatever the deadline;
    (3) unknown name: `NoSuchEntity`, state unchanged;
    (4) live process and deadline already over: error, state unchanged (no signal was sent);
    (5) live process, deadline ahead, process does not die in time: error, bookkeeping unchanged;
    (6) live process, deadline ahead, dies in time: ok and exactly one event "signal 9" is appended. -/
theorem C19_kill_post (s : Sup) (n : Nat) (dp dit : Bool) :
    ((step s (.kill n dp dit)).2 = .ok →
        ∃ pid nm st, (step s (.kill n dp dit)).1.map.lookup n = some pid ∧
          (step s (.kill n dp dit)).1.procs[pid]? = some ⟨nm, .exited st⟩) ∧
    (∀ pid nm st, s.map.lookup n = some pid → s.procs[pid]? = some ⟨nm, .exited st⟩ →
        step s (.kill n dp dit) = (s, .ok)) ∧
    (s.map.lookup n = none → step s (.kill n dp dit) = (s, .noSuchEntity)) ∧
    (∀ pid nm, s.map.lookup n = some pid → s.procs[pid]? = some ⟨nm, .running⟩ → dp = true →
        step s (.kill n dp dit) = (s, .badDeadline)) ∧
    (∀ pid nm, s.map.lookup n = some pid → s.procs[pid]? = some ⟨nm, .running⟩ → dp = false →
        dit = false → step s (.kill n dp dit) = (s, .timedOut)) ∧
    (∀ pid nm, s.map.lookup n = some pid → s.procs[pid]? = some ⟨nm, .running⟩ → dp = false →
        dit = true → (step s (.kill n dp dit)).2 = .ok ∧
          (step s (.kill n dp dit)).1.events = s.events ++ [⟨pid, nm, .sig sigKill⟩]) := by
  refine ⟨?_, ?_, ?_, ?_, ?_, ?_⟩
  · intro hok
    cases hl : s.map.lookup n with
    | none => simp [step, hl] at hok
    | some pid =>
      cases hp : s.procs[pid]? with
      | none => simp [step, hl, hp] at hok
      | some p =>
        obtain ⟨nm, pst⟩ := p
        cases pst with
        | exited st =>
          refine ⟨pid, nm, st, ?_, ?_⟩
          · simp only [step, hl, hp]
          · simp only [step, hl, hp]
        | running =>
          have hlt : pid < s.procs.length := by
            obtain ⟨h', _⟩ := List.getElem?_eq_some_iff.mp hp
            exact h'
          cases dp with
          | true => simp [step, hl, hp] at hok
          | false =>
            cases dit with
            | false => simp [step, hl, hp] at hok
            | true =>
              refine ⟨pid, nm, .sig sigKill, ?_, ?_⟩
              · simp only [step, hl, hp]
                simp only [Bool.false_eq_true, if_false, if_true]
                rw [exitProc_map]; exact hl
              · simp only [step, hl, hp]
                simp only [Bool.false_eq_true, if_false, if_true]
                rw [exitProc_running _ hp]; exact List.getElem?_set_self hlt
  · intro pid nm st hl hp
    simp only [step, hl, hp]
  · intro hl
    simp only [step, hl]
  · intro pid nm hl hp hdp
    simp only [step, hl, hp, hdp, if_true]
  · intro pid nm hl hp hdp hdit
    simp [step, hl, hp, hdp, hdit]
  · intro pid nm hl hp hdp hdit
    simp only [step, hl, hp, hdp, hdit]
    simp [exitProc_running _ hp]

/-- "Unknown name" means exactly: no successful `Exec` with that name happened (exits, kills and
    terminates never remove a name — a later `Kill` of an exited name still finds it). For a known
    name the map points at the process started by the LATEST successful `Exec` of that name. -/
theorem C19_unknown_iff_never_execd (ops : List Op) (n : Nat) :
    ((run init ops).map.lookup n = none ↔ ∀ o ∈ ops, isExec n o = false) ∧
    (∀ pid, (run init ops).map.lookup n = some pid → ∃ st, (run init ops).procs[pid]? = some ⟨n, st⟩) := by
  refine ⟨?_, ?_⟩
  · rw [run_lookup_none]
    simp [init]
  · intro pid h
    exact (inv_run inv_init ops).mapWf n pid h

/-- A second `Exec` with a name already in the map is not refused: it starts another process and the
    name now denotes the new one; the older process stays in the table (and, by `C19_one_event`,
    still gets its one event). -/
theorem C19_exec_overwrites (s : Sup) (n : Nat) :
    (step s (.exec n true)).2 = .ok ∧
    (step s (.exec n true)).1.map.lookup n = some s.procs.length ∧
    (step s (.exec n true)).1.procs = s.procs ++ [⟨n, .running⟩] ∧
    (step s (.exec n true)).1.events = s.events := by
  simp [step]

/-- A failed `Exec` (the program could not be started) leaves no trace: no process, no name, no event. -/
theorem C19_exec_fail_inert (s : Sup) (n : Nat) : step s (.exec n false) = (s, .startErr) := by
  simp [step]

/-- **Terminate does not wait and keeps no books**: it returns at once with ok for a known name
    (even one whose process already exited) and `NoSuchEntity` for an unknown one; the state
    (processes, map, events) is unchanged in both cases. -/
theorem C19_terminate_no_wait (s : Sup) (n : Nat) :
    (step s (.terminate n)).1 = s ∧
    ((step s (.terminate n)).2 = .ok ↔ s.map.lookup n ≠ none) ∧
    ((step s (.terminate n)).2 = .noSuchEntity ↔ s.map.lookup n = none) := by
  simp only [step]
  split
  · rename_i pid hl
    simp [hl]
  · rename_i hl
    simp [hl]

/-! ### non-vacuity: concrete histories that exercise every branch -/

-- two processes, one exits by itself with status 3, the other is killed: two events, in that order
example : (run init [.exec 1 true, .exec 2 true, .exit 0 (.code 3), .kill 2 false true]).events
    = [⟨0, 1, .code 3⟩, ⟨1, 2, .sig 9⟩] := by decide
-- kill of an already exited name succeeds even with a deadline in the past, and emits nothing more
example : step (run init [.exec 1 true, .exit 0 (.code 0)]) (.kill 1 true false)
    = (run init [.exec 1 true, .exit 0 (.code 0)], .ok) := by decide
-- unknown name, past deadline on a live process, process outliving the deadline: three different errors
example : (step (run init [.exec 1 true]) (.kill 7 false true)).2 = .noSuchEntity := by decide
example : (step (run init [.exec 1 true]) (.kill 1 true true)).2 = .badDeadline := by decide
example : (step (run init [.exec 1 true]) (.kill 1 false false)).2 = .timedOut := by decide
-- after a kill that gave up, the process still ends later and gets its one event
example : (run init [.exec 1 true, .kill 1 false false, .exit 0 (.sig 9), .exit 0 (.sig 9)]).events
    = [⟨0, 1, .sig 9⟩] := by decide
-- the same name started twice: the map follows the newer process, the older one still gets its event
example : (run init [.exec 1 true, .exec 1 true, .kill 1 false true, .exit 0 (.code 5)]).events
    = [⟨1, 1, .sig 9⟩, ⟨0, 1, .code 5⟩] := by decide
example : evCountName (run init [.exec 1 true, .exec 1 true, .kill 1 false true, .exit 0 (.code 5)]) 1 = 2 := by
  decide
-- terminate: ok for a known name, NoSuchEntity otherwise; a failed exec leaves the name unknown
example : (step (run init [.exec 1 false]) (.terminate 1)).2 = .noSuchEntity := by decide
example : (step (run init [.exec 1 true]) (.terminate 1)).2 = .ok := by decide

end Rie.Props.C19
