import Rie.Props.C11
import Rie.Oracle.Gate
