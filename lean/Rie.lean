import Rie.Props.C11
import Rie.Oracle.Gate
import Rie.Props.Tables
import Rie.Props.C16
import Rie.Props.C17
import Rie.Props.C19
import Rie.Oracle.Sys
import Rie.Props.C20
