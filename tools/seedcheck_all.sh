#!/bin/bash
# tools/seedcheck_all.sh [jobs] [ids…] — run every kept seeded change (seeded/<id>/patch.diff) against the
# current machinery: scratch worktree of /repo HEAD + patch, the property's quick check in a scratch copy of
# /verif, result in .build/seedcheck/<id>.out; worktrees and copies are removed as soon as each is done.
J=${1:-4}; shift
cd /verif
IDS="$@"; [ -n "$IDS" ] || IDS=$(ls seeded)
mkdir -p .build/seedcheck
one() {
  id=$1; P=${id%%-*}; W=/tmp/sc-$id
  git -C /repo worktree remove --force $W >/dev/null 2>&1
  git -C /repo worktree add -q $W HEAD || { echo "$id WORKTREE-FAILED" > .build/seedcheck/$id.out; return; }
  if ! git -C $W apply /verif/seeded/$id/patch.diff 2>/dev/null; then
    echo "$id PATCH-DOES-NOT-APPLY" > .build/seedcheck/$id.out
  else
    tools/scratch_check.sh $W $P quick > .build/seedcheck/$id.log 2>&1
    if grep -q "^VIOLATION" .build/seedcheck/$id.log; then
      echo "$id DETECTED $(grep -c '^VIOLATION' .build/seedcheck/$id.log) $(grep -m1 -A2 '^VIOLATION' .build/seedcheck/$id.log | grep signature | cut -c1-120)" > .build/seedcheck/$id.out
    else
      echo "$id MISSED $(grep 'tier=quick' .build/seedcheck/$id.log | cut -c1-150)" > .build/seedcheck/$id.out
    fi
  fi
  git -C /repo worktree remove --force $W >/dev/null 2>&1; rm -rf $W.verif
}
export -f one
echo $IDS | tr ' ' '\n' | xargs -P $J -I{} bash -c 'one {}'
cat .build/seedcheck/*.out | sort > .build/seedcheck/SUMMARY.txt
grep -c DETECTED .build/seedcheck/SUMMARY.txt
