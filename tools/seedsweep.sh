#!/bin/sh
# tools/seedsweep.sh <from> <to> [props…] — run every (or the named) check's quick tier for seeds from..to;
# prints only alarms. Used to hunt false alarms on the unchanged tree.
set -e
cd "$(dirname "$0")/.."
a=$1; b=$2; shift 2
[ -x .build/stackdrv ] || ./setup.sh >/dev/null 2>&1
props="$@"
[ -n "$props" ] || props=$(python3 -c "import json;print(' '.join(c['property_id'] for c in json.load(open('MANIFEST.json'))['checks']))")
for sd in $(seq $a $b); do
  for p in $props; do
    out=$(VERIF_SEED=$sd ./check $p --tier quick 2>&1 | grep -E "VIOLATION|KNOWN-FINDING|Traceback|Error" || true)
    [ -z "$out" ] || echo "seed=$sd $p: $out"
  done
  echo "seed $sd done"
done
