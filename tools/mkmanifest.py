#!/usr/bin/env python3
"""Regenerates /verif/MANIFEST.json from the table below (kept valid at all times)."""
import json, os
V = os.path.dirname(os.path.dirname(os.path.abspath(__file__)))
ALL = [f"C{i:02d}" for i in range(1, 21)]

TB = "Trusted: Lean kernel; axioms ⊆ {propext, Classical.choice, Quot.sound} audited each run; the hand-written Lean model is tied to the code by the named correspondence run (differential testing, not proof); Go sync primitives, net/http, encoding/json assumed."

CHECKS = {
 "C11": dict(
   text="Lean 4 theorems (induction over arbitrary op lists, any number of waiters, any initial count): no lost wake-up, no premature return, exact return value, refusals inert, cancellation sticky until clear, per-gate independence inside flow objects, ManagedThread one-shot. The model is tied to core.NewGate / flow objects / ManagedThread by a quiescent-step differential run (seeded + exhaustive short sequences) on every run.",
   note=TB + " Each gate method is one atomic step (it holds the mutex throughout). Register never wraps uint16 (NoWrap hypothesis). 'Eventually returns' needs scheduler fairness.",
   technique="Lean 4 inductive invariant + quiescent-step differential correspondence", design="§6 C11"),
}

NA_REASON = {}

def main():
    checks = []
    for pid, c in sorted(CHECKS.items()):
        checks.append({
            "property_id": pid,
            "quick_cmd": f"./check {pid} --tier quick",
            "thorough_cmd": f"./check {pid} --tier thorough",
            "evidence_file": f"/verif/evidence/{pid}.json",
            "replay_cmd_template": f"./check {pid} --replay {{path}}",
            "engine": "lean4+harness",
            "level_claimed": {"category": c.get("category", "proof"), "text": c["text"], "design_ref": c["design"]},
            "level_note": c["note"],
            "technique": c["technique"],
        })
    na = [{"property_id": p, "reason": NA_REASON.get(p, "check not built yet in this round (model and correspondence planned in DESIGN.md §6); not claimed until it runs silently on the unchanged tree")}
          for p in ALL if p not in CHECKS]
    hooks_commits = []
    try:
        hooks_commits = [l.strip() for l in open(os.path.join(V, "hooks_commits.txt")) if l.strip()]
    except OSError:
        pass
    m = {
        "version": 1,
        "setup_cmd": "./setup.sh",
        "hooks": {"guard": "verif", "enable": "go build -tags verif (harness binaries are built with the tag; hooks live in files guarded by //go:build verif)",
                  "baseline_off_cmd": "cd /repo && go test -mod=mod -json -vet=off -count=1 -timeout 25m ./...",
                  "source_commits": hooks_commits, "add_only": True},
        "engines": [{"name": "lean4+harness", "path": "/verif/lean, /verif/harness, /verif/check",
                     "serves_properties": sorted(CHECKS), "kind_free_text": "Lean 4 models + theorems (lake build, axiom audit), core-only oracle executable, Go differential harness linking /repo"}],
        "checks": checks,
        "not_applicable": na,
        "notes": "See DESIGN.md. Every check rebuilds the Go harness against /repo's working tree (-tags verif), regenerates Rie/Gen from the built code, re-checks the Lean obligations and runs the correspondence."
    }
    json.dump(m, open(os.path.join(V, "MANIFEST.json"), "w"), indent=1, ensure_ascii=False)
    print("MANIFEST.json:", len(checks), "checks,", len(na), "not_applicable")

if __name__ == "__main__":
    main()
