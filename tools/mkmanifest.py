#!/usr/bin/env python3
"""Regenerates /verif/MANIFEST.json from the table below (kept valid at all times)."""
import json, os
V = os.path.dirname(os.path.dirname(os.path.abspath(__file__)))
ALL = [f"C{i:02d}" for i in range(1, 21)]

TB = "Trusted: Lean kernel; axioms ⊆ {propext, Classical.choice, Quot.sound} audited each run; the hand-written Lean model is tied to the code by the named correspondence run (differential testing, not proof); Go sync primitives, net/http, encoding/json assumed."

CHECKS = {
 "C11": dict(
   text="Lean 4 theorems (induction over arbitrary op lists, any number of waiters, any initial count): no lost wake-up, no premature return, exact return value, refusals inert, cancellation sticky until clear, per-gate independence inside flow objects, ManagedThread one-shot. The model is tied to core.NewGate / flow objects / ManagedThread by a quiescent-step differential run (seeded + exhaustive short sequences) on every run.",
   note=TB + " Each gate method is one atomic step (it holds the mutex throughout). Register never wraps uint16 (NoWrap hypothesis). 'Eventually returns' needs scheduler fairness.",
   technique="Lean 4 inductive invariant + quiescent-step differential correspondence", design="§6 C11"),
}

CHECKS.update({
 "C16": dict(
   text="Lean model Rie.Env of lambda/rapidcore/env (six layers, all exported mutators, both credential modes, KEY=VALUE cut) over key sets regenerated from the built code on every run; theorems for all process environments, all mutator sequences and all customer maps: precedence, reserved values win, unshadowed variables unchanged, split at first '=', extension view filter, same API address. Tied by three differential runs: real env.Environment methods, SplitEnvironmentVariable/strings.SplitN, and the real aws-lambda-rie binary with real child processes dumping their environment.",
   note=TB + " 'the address the API server really listens on' is tested (e2e), not proved; keys with '=' or NUL are map-level only; port 0 not exercised; the isInternalEnvVar exemption list is hand-written in the model (differentially covered).",
   technique="Lean 4 proof + regenerated key-set obligations (decide) + differential correspondence (unit, split, e2e binary)", design="§6 C16"),
 "C17": dict(
   text="Lean models of ReceiveDirectInvoke (header parsing with package-level variables), the payload copy/classification and the token bucket; theorems for all globals/requests (history independence), all payloads and chunkings (forward exact, classification), all tick/write schedules (rate bound, progress). Constants regenerated from the built code. Tied by differential runs of the real functions (request sequences, copy with injected read errors, bucket with virtual ticks) plus one-sided wall-clock observations.",
   note=TB + " Overlapping direct invokes are out of scope (unsynchronised package variables). Real-time rate is runtime truth: the bound is proved against tick counts and observed one-sidedly. The reservation-deadline boundary is not driven.",
   technique="Lean 4 proof + regenerated constants + differential correspondence with virtual ticks", design="§6 C17"),
 "C19": dict(
   text="Lean model of the local supervisor's bookkeeping (process table, name map, events, Kill/Terminate return classes) with theorems over arbitrary op sequences: exactly one event per exited process carrying its exit status, Kill post-conditions, Terminate changes nothing. Tied by a differential run on the real LocalSupervisor with real /bin/sh children and a model-free ground-truth oracle (/proc, pid markers, process-group scans), sequential and racing cases.",
   note=TB + " The proof covers the bookkeeping; OS semantics (signal delivery, reaping, process groups, wait status) are sampled by supdrv, not proved. Stop() is not modelled.",
   technique="Lean 4 inductive invariant + differential run on real processes with ground-truth oracle", design="§6 C19"),
})

CHECKS.update({
 "C20": dict(
   text="Lean theorems over all byte strings (error type: closed under sanitize, identity exactly on the allowed form, fallbacks), all parsed causes x all encoders within the 6x escape hypothesis (64 KiB bound, fields are prefixes/crops, dropped iff no recognised field), all request sequences (runtime release bound and fixedness); constants and the regexp literal regenerated from the built code with side conditions by decide; seeded differential run on the real functions and the real HTTP error handlers, every case also judged model-free.",
   note=TB + " JSON parsing, layout and escaping (<=6x per byte, checked on every generated string), Go regexp for the regenerated pattern, strings.Fields on non-ASCII input are trusted; 'bodies pass through untouched' is checked on the real handlers only.",
   technique="Lean 4 proof + regenerated constants (decide) + differential correspondence + model-free oracle", design="§6 C20"),
})

NA_REASON = {}

def main():
    checks = []
    for pid, c in sorted(CHECKS.items()):
        checks.append({
            "property_id": pid,
            "quick_cmd": f"./check {pid} --tier quick",
            "thorough_cmd": f"./check {pid} --tier thorough",
            "evidence_file": f"/verif/evidence/{pid}.json",
            "replay_cmd_template": f"./check {pid} --replay {{path}}",
            "engine": "lean4+harness",
            "level_claimed": {"category": c.get("category", "proof"), "text": c["text"], "design_ref": c["design"]},
            "level_note": c["note"],
            "technique": c["technique"],
        })
    na = [{"property_id": p, "reason": NA_REASON.get(p, "check not built yet in this round (model and correspondence planned in DESIGN.md §6); not claimed until it runs silently on the unchanged tree")}
          for p in ALL if p not in CHECKS]
    hooks_commits = []
    try:
        hooks_commits = [l.strip() for l in open(os.path.join(V, "hooks_commits.txt")) if l.strip()]
    except OSError:
        pass
    m = {
        "version": 1,
        "setup_cmd": "./setup.sh",
        "hooks": {"guard": "verif", "enable": "go build -tags verif (harness binaries are built with the tag; hooks live in files guarded by //go:build verif)",
                  "baseline_off_cmd": "cd /repo && go test -mod=mod -json -vet=off -count=1 -timeout 25m ./...",
                  "source_commits": hooks_commits, "add_only": True},
        "engines": [{"name": "lean4+harness", "path": "/verif/lean, /verif/harness, /verif/check",
                     "serves_properties": sorted(CHECKS), "kind_free_text": "Lean 4 models + theorems (lake build, axiom audit), core-only oracle executable, Go differential harness linking /repo"}],
        "checks": checks,
        "not_applicable": na,
        "notes": "See DESIGN.md. Every check rebuilds the Go harness against /repo's working tree (-tags verif), regenerates Rie/Gen from the built code, re-checks the Lean obligations and runs the correspondence."
    }
    json.dump(m, open(os.path.join(V, "MANIFEST.json"), "w"), indent=1, ensure_ascii=False)
    print("MANIFEST.json:", len(checks), "checks,", len(na), "not_applicable")

if __name__ == "__main__":
    main()
