#!/bin/sh
# tools/thoroughsweep.sh [props…] — run the thorough tier of every (or the named) check once; prints the summary lines
cd "$(dirname "$0")/.."
[ -x .build/stackdrv ] || ./setup.sh >/dev/null 2>&1
props="$@"
[ -n "$props" ] || props=$(python3 -c "import json;print(' '.join(c['property_id'] for c in json.load(open('MANIFEST.json'))['checks']))")
for p in $props; do
  VERIF_SEED=${VERIF_SEED:-1} ./check $p --tier thorough 2>&1 | grep -E "VIOLATION|KNOWN-FINDING|Traceback|Error|^  \||tier=" | cut -c1-300
done
