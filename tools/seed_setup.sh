#!/bin/bash
# tools/seed_setup.sh <Cxx>... : scratch worktree + property text + prompt for a seeded-change sub-agent
for P in "$@"; do
  git -C /repo worktree add -q /tmp/seed-$P HEAD || exit 1
  python3 - $P <<'PY'
import json,sys
P=sys.argv[1]
for l in open('/verif/properties.jsonl'):
    d=json.loads(l)
    if d['id']==P:
        open(f'/tmp/seed-{P}.property.txt','w').write(json.dumps(d,indent=1))
PY
  sed "s/PROP/$P/g" ${SEED_PROMPT:-/verif/tools/seed_prompt.txt} > /tmp/seed-prompt-$P.txt
done
