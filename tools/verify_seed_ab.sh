#!/bin/bash
# tools/verify_seed_ab.sh <Cxx> <A|B> [checks] : round-3 seeds (two patches per worktree, none applied):
# demo without the patch (pass), apply, demo with the patch (fail), run the checks against the patched tree, unapply.
P=$1; V=$2; CHECKS=${3:-$P}; W=/tmp/seed-$P
export GOFLAGS=-mod=mod GOPROXY=off GOSUMDB=off GOTOOLCHAIN=local
cd $W || exit 2
D=demo_${P}_$V
run_demo() { if ls $D/*_test.go >/dev/null 2>&1; then go test -count=1 ./$D/ 2>&1 | tail -3; else go run ./$D 2>&1 | tail -3; echo "exit=$?"; fi; }
git checkout -q -- . 
git checkout -q --detach $(git -C /repo rev-parse HEAD)   # the worktree may predate a later fix: commit in /repo
echo "== $P-$V without patch"; run_demo
git apply /tmp/seed-$P.$V.patch || { echo "PATCH DOES NOT APPLY"; exit 3; }
echo "== $P-$V with patch"; run_demo
git diff --stat -- . | tail -3
echo "== build+vet"; go build ./... && go vet $(go list ./... | grep -v /demo_) 2>&1 | tail -2
cd /verif && tools/scratch_check.sh $W $CHECKS ${TIER:-quick} 2>&1 | grep -E "VIOLATION|KNOWN|violations=|^  \| (mon_|signature|MISMATCH|real|[a-z0-9_]+: )" | cut -c1-260 | head -30
cd $W && git checkout -q -- .
