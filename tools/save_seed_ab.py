#!/usr/bin/env python3
"""tools/save_seed_ab.py <Cxx> <A|B> <new-id> <json-file-with-fields>: keep a verified round-3 seed
(/tmp/seed-Cxx worktree, /tmp/seed-Cxx.<V>.patch, demo_Cxx_<V>/) as seeded/<new-id>/."""
import json, os, shutil, sys
P, V, nid, fields = sys.argv[1:5]
d = f"/verif/seeded/{nid}"
os.makedirs(d, exist_ok=True)
shutil.copy(f"/tmp/seed-{P}.{V}.patch", f"{d}/patch.diff")
if os.path.exists(f"{d}/demo"):
    shutil.rmtree(f"{d}/demo")
shutil.copytree(f"/tmp/seed-{P}/demo_{P}_{V}", f"{d}/demo")
m = {"id": nid, "property": P}
m.update(json.load(open(fields)))
m.setdefault("verified", "tools/verify_seed_ab.sh <P> <A|B> (base a228bed): the demo passes on the original and fails with patch.diff applied, re-run by me; go build + go vet pass; the agent ran the repository test suite with the patch (all ok); check run with tools/scratch_check.sh")
json.dump(m, open(f"{d}/meta.json", "w"), indent=1)
print("saved", d)
