#!/bin/sh
# tools/scratch_check.sh <repo-copy-dir> <Cxx>[,<Cyy>…] [tier]
# Runs checks against a scratch copy of the repository (e.g. a git worktree with a mutation
# applied) in an isolated copy of /verif, so that /repo, /verif/lean/Rie/Gen and /verif/.build are
# not touched. The copy lives next to the repo copy and is removed afterwards (KEEP=1 keeps it).
set -e
R=$(realpath "$1"); PS=$(echo "$2" | tr ',' ' '); T=${3:-quick}
V="$R.verif"
rm -rf "$V"; mkdir -p "$V"
rsync -a --exclude .git --exclude .build/work --exclude .build/gocache --exclude '.build/*.trace' --exclude '.build/*.out' --exclude replays --exclude evidence /verif/ "$V"/
mkdir -p "$V/replays" "$V/evidence"
cd "$V"
for P in $PS; do
  VERIF_REPO="$R" GOCACHE=/verif/.build/gocache ./check "$P" --tier "$T" || true
done
[ -n "$KEEP" ] || rm -rf "$V"
