#!/bin/sh
# tools/scratch_check.sh <repo-copy-dir> <Cxx> [tier]
# Runs a check against a scratch copy of the repository (e.g. a git worktree with a mutation
# applied) in an isolated copy of /verif, so that /repo, /verif/lean/Rie/Gen and /verif/.build are
# not touched. The copy lives next to the repo copy and is removed afterwards.
set -e
R=$(realpath "$1"); P=$2; T=${3:-quick}
V="$R.verif"
rm -rf "$V"; mkdir -p "$V"
rsync -a --exclude .git --exclude .build/work --exclude replays --exclude evidence /verif/ "$V"/
mkdir -p "$V/replays" "$V/evidence"
cd "$V"
VERIF_REPO="$R" ./check "$P" --tier "$T" || true
[ -n "$KEEP" ] || rm -rf "$V"
