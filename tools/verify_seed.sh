#!/bin/bash
# tools/verify_seed.sh <Cxx> [checks] : re-run a seeded change's demonstration with and without its patch
# in its scratch worktree /tmp/seed-<Cxx>, then run the named checks against the patched worktree.
P=$1; CHECKS=${2:-$P}; W=/tmp/seed-$P
export GOFLAGS=-mod=mod GOPROXY=off GOSUMDB=off GOTOOLCHAIN=local
cd $W || exit 2
run_demo() { if ls demo_$P/*_test.go >/dev/null 2>&1; then go test -count=1 ./demo_$P/ 2>&1 | tail -4; else go run ./demo_$P 2>&1 | tail -4; echo "exit=$?"; fi; }
echo "== with patch"; run_demo
git stash -q; echo "== without patch"; run_demo; git stash pop -q
git diff --stat -- . ":!demo_$P"
echo "== build+vet"; go build ./... && go vet ./... 2>&1 | tail -2
cd /verif && tools/scratch_check.sh $W $CHECKS ${TIER:-quick} 2>&1 | grep -E "VIOLATION|KNOWN|violations=" 
