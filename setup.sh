#!/bin/sh
# Build the framework from files on disk only (offline): Lean project + oracle, Go harness.
set -e
cd "$(dirname "$0")"
export GOFLAGS=-mod=mod GOPROXY=off GOSUMDB=off GOTOOLCHAIN=local
mkdir -p .build evidence replays
export GOCACHE="$PWD/.build/gocache"
cp /repo/go.sum harness/go.sum
(cd harness && for c in cmd/*; do go build -tags verif -o ../.build/$(basename $c) ./$c; done)
(cd lean && lake build Rie rie-oracle Rie.AuditCmd)
echo setup-ok
